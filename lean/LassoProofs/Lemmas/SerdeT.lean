import LassoProofs.Lemmas.Serde
/-
  `ThreadedRodeo::deserialize`: the loop over the (deduplicated) entries and the final validation.
-/
namespace Lasso
set_option linter.unusedSimpArgs false

theorem LArena.store_head_fit (a : LArena) (b : Bucket) (rest : List Bucket) (x : Bytes)
    (hb : a.buckets = b :: rest) (hfit : x.length ≤ b.cap - b.data.length) :
    ∃ a' ref, a.store x = .ok (a', ref) ∧ a'.buckets = { b with data := b.data ++ x } :: rest ∧ a'.max = a.max := by
  by_cases h0 : x.length = 0
  · have : x = [] := List.eq_nil_of_length_eq_zero h0
    subst this
    exact ⟨a, .empty, by simp [LArena.store], by simp [hb], rfl⟩
  · refine ⟨{ a with buckets := { b with data := b.data ++ x } :: rest },
      .arena { bid := b.id, off := b.data.length, len := x.length }, ?_, rfl, rfl⟩
    unfold LArena.store
    simp only [h0, ↓reduceIte, hb, LArena.fitIn]
    rw [if_pos (by omega)]

/-- Loop invariant of `ThreadedRodeo::deserialize` after the entries `done` have been processed. -/
structure DeT (env : Env) (N : Nat) (t : Threaded) (done : List (Bytes × Nat)) : Prop where
  wf : t.arena.WF
  mapContent : t.map.map (fun e => contentOf env t.arena.read e.1) = done.map (fun e => some e.1)
  mapIdx : t.map.map (·.2) = done.map (fun e => indexOfKey e.2)
  strNd : (t.strs.map (·.1)).Nodup
  strFrom : ∀ k ref, (k, ref) ∈ t.strs → (ref, k) ∈ t.map
  lenLe : t.strs.length ≤ t.map.length
  good : t.strs.length = t.map.length → (∀ ref k, (ref, k) ∈ t.map → (k, ref) ∈ t.strs) ∧ (t.map.map (·.2)).Nodup
  ctrGt : ∀ e ∈ t.map, e.2 < t.ctr
  ctrMax : (t.ctr = 0 ∧ t.map = []) ∨ ∃ e ∈ t.map, t.ctr = e.2 + 1
  strKeys : ∀ e ∈ t.map, ∃ ref, (e.2, ref) ∈ t.strs
  idxLt : ∀ e ∈ t.map, e.2 < N
  valid : ∀ e ∈ t.map, ∀ loc, e.1 = .arena loc → t.arena.valid loc ∧ loc.len ≠ 0
  noStatic : ∀ e ∈ t.map, ∀ i, e.1 ≠ .static i
  disjoint : t.map.Pairwise (fun a b => ∀ l m, a.1 = .arena l → b.1 = .arena m → l.disjoint m)

theorem assocInsert_keys (k : Nat) (v : StrRef) (l : List (Nat × StrRef)) (h : (l.map (·.1)).Nodup) :
    ((assocInsert k v l).map (·.1)).Nodup := by
  unfold assocInsert
  simp only [List.map_cons, List.nodup_cons, List.mem_map, List.mem_filter]
  refine ⟨?_, ?_⟩
  · rintro ⟨e, ⟨_, he⟩, hk⟩
    simp [hk] at he
  · exact (List.Sublist.map _ List.filter_sublist).nodup h

theorem assocInsert_mem {k : Nat} {v : StrRef} {l : List (Nat × StrRef)} {e : Nat × StrRef}
    (h : e ∈ assocInsert k v l) : e = (k, v) ∨ (e ∈ l ∧ e.1 ≠ k) := by
  unfold assocInsert at h
  simp only [List.mem_cons, List.mem_filter] at h
  rcases h with h | ⟨h1, h2⟩
  · exact Or.inl h
  · exact Or.inr ⟨h1, by simpa using h2⟩

theorem assocInsert_length_le (k : Nat) (v : StrRef) (l : List (Nat × StrRef)) :
    (assocInsert k v l).length ≤ l.length + 1 := by
  unfold assocInsert
  simp only [List.length_cons]
  have := List.length_filter_le (fun e : Nat × StrRef => !(e.1 == k)) l
  omega

theorem assocInsert_full {k : Nat} {v : StrRef} {l : List (Nat × StrRef)}
    (h : (assocInsert k v l).length = l.length + 1) : assocInsert k v l = (k, v) :: l ∧ ∀ e ∈ l, e.1 ≠ k := by
  unfold assocInsert at h ⊢
  simp only [List.length_cons, Nat.add_right_cancel_iff] at h
  have := List.length_filter_eq_length_iff.mp h
  refine ⟨by rw [List.filter_eq_self.mpr this], ?_⟩
  intro e he
  simpa using this e he

/-- One iteration of the loop. -/
theorem DeT.step {env : Env} {N : Nat} {t : Threaded} {done : List (Bytes × Nat)} (h : DeT env N t done)
    (x : Bytes) (raw : Nat) (hraw : 0 < raw ∧ raw ≤ N) (b : Bucket) (rest : List Bucket)
    (hb : t.arena.buckets = b :: rest) (hfit : x.length ≤ b.cap - b.data.length) :
    ∃ a' ref, t.arena.store x = .ok (a', ref) ∧ a'.buckets = { b with data := b.data ++ x } :: rest ∧
      DeT env N { t with arena := a', ctr := Nat.max t.ctr (indexOfKey raw + 1),
                         map := t.map ++ [(ref, indexOfKey raw)], strs := assocInsert (indexOfKey raw) ref t.strs }
        (done ++ [(x, raw)]) := by
  obtain ⟨a', ref, hst, hbk, _⟩ := LArena.store_head_fit t.arena b rest x hb hfit
  refine ⟨a', ref, hst, hbk, ?_⟩
  have hwf' := LArena.store_wf h.wf hst
  have hmono : ∀ l y, t.arena.read l = some y → a'.read l = some y :=
    fun l y hr => LArena.store_read_old h.wf hst l y hr
  have hc : contentOf env a'.read ref = some x := by
    rcases LArena.store_nonempty_ref hst with ⟨h0, rfl, _⟩ | ⟨_, loc, rfl, _⟩
    · simp [contentOf]; exact List.eq_nil_of_length_eq_zero h0
    · simp only [contentOf]; exact LArena.store_read_new h.wf hst
  have hidx : indexOfKey raw < N := by unfold indexOfKey; omega
  constructor
  · exact hwf'
  · -- contents of old entries are preserved, the new one is `x`
    simp only [List.map_append, List.map_cons, List.map_nil, hc]
    congr 1
    rw [← h.mapContent]
    apply List.map_congr_left
    intro e he
    have : ∃ y, contentOf env t.arena.read e.1 = some y := by
      have hm : contentOf env t.arena.read e.1 ∈ t.map.map (fun e => contentOf env t.arena.read e.1) :=
        List.mem_map.mpr ⟨e, he, rfl⟩
      rw [h.mapContent] at hm
      obtain ⟨d, _, hd⟩ := List.mem_map.mp hm
      exact ⟨d.1, hd.symm⟩
    obtain ⟨y, hy⟩ := this
    rw [hy]; exact contentOf_mono hmono hy
  · simp [h.mapIdx]
  · exact assocInsert_keys _ _ _ h.strNd
  · intro k r hm
    rcases assocInsert_mem hm with he | ⟨he, _⟩
    · injection he with h1 h2; subst h1 h2; simp
    · exact List.mem_append_left _ (h.strFrom k r he)
  · have := assocInsert_length_le (indexOfKey raw) ref t.strs
    have := h.lenLe
    simp; omega
  · intro heq
    simp only [List.length_append, List.length_singleton] at heq
    have hle := assocInsert_length_le (indexOfKey raw) ref t.strs
    have hl := h.lenLe
    have hfull : (assocInsert (indexOfKey raw) ref t.strs).length = t.strs.length + 1 := by omega
    have hlen : t.strs.length = t.map.length := by omega
    obtain ⟨hins, hfresh⟩ := assocInsert_full hfull
    obtain ⟨g1, g2⟩ := h.good hlen
    rw [hins]
    refine ⟨?_, ?_⟩
    · intro r k hm
      simp only [List.mem_append, List.mem_singleton, Prod.mk.injEq] at hm
      rcases hm with hm | ⟨rfl, rfl⟩
      · exact List.mem_cons_of_mem _ (g1 r k hm)
      · simp
    · simp only [List.map_append, List.map_cons, List.map_nil]
      rw [List.nodup_append]
      refine ⟨g2, by simp, ?_⟩
      intro a ha c hc'
      simp only [List.mem_singleton] at hc'
      subst hc'
      obtain ⟨e, he, rfl⟩ := List.mem_map.mp ha
      intro heq2
      exact hfresh (e.2, e.1) (g1 e.1 e.2 he) heq2
  · intro e he
    simp only [List.mem_append, List.mem_singleton] at he
    rcases he with he | rfl
    · have := h.ctrGt e he; simp only; exact Nat.lt_of_lt_of_le this (Nat.le_max_left _ _)
    · simp only; exact Nat.lt_of_lt_of_le (Nat.lt_succ_self _) (Nat.le_max_right _ _)
  · right
    by_cases hc2 : t.ctr ≤ indexOfKey raw + 1
    · refine ⟨(ref, indexOfKey raw), by simp, ?_⟩
      show Nat.max t.ctr (indexOfKey raw + 1) = indexOfKey raw + 1
      simp only [Nat.max_def]; split <;> omega
    · rcases h.ctrMax with ⟨h0, _⟩ | ⟨e, he, hce⟩
      · omega
      · refine ⟨e, by simp [he], ?_⟩
        show Nat.max t.ctr (indexOfKey raw + 1) = e.2 + 1
        simp only [Nat.max_def]; split <;> omega
  · intro e he
    simp only [List.mem_append, List.mem_singleton] at he
    unfold assocInsert
    rcases he with he | rfl
    · obtain ⟨r, hr⟩ := h.strKeys e he
      by_cases hk : e.2 = indexOfKey raw
      · exact ⟨ref, by simp [hk]⟩
      · exact ⟨r, by simp [List.mem_filter, hr, hk]⟩
    · exact ⟨ref, by simp⟩
  · intro e he
    simp only [List.mem_append, List.mem_singleton] at he
    rcases he with he | rfl
    · exact h.idxLt e he
    · exact hidx
  · intro e he loc hl
    simp only [List.mem_append, List.mem_singleton] at he
    rcases he with he | rfl
    · obtain ⟨hv, hn⟩ := h.valid e he loc hl
      refine ⟨?_, hn⟩
      obtain ⟨y, hy⟩ := (LArena.valid_iff_read h.wf loc).mp hv
      exact (LArena.valid_iff_read hwf' loc).mpr ⟨y, hmono _ _ hy⟩
    · simp only at hl
      subst hl
      refine ⟨(LArena.valid_iff_read hwf' loc).mpr ⟨x, LArena.store_read_new h.wf hst⟩, ?_⟩
      rcases LArena.store_nonempty_ref hst with ⟨_, hh, _⟩ | ⟨h0, loc', hh, hl⟩
      · simp at hh
      · injection hh with hh; subst hh; omega
  · intro e he i hi
    simp only [List.mem_append, List.mem_singleton] at he
    rcases he with he | rfl
    · exact h.noStatic e he i hi
    · have hi' : ref = .static i := hi
      rcases LArena.store_nonempty_ref hst with ⟨_, hh, _⟩ | ⟨_, loc', hh, _⟩ <;> rw [hi'] at hh <;> simp at hh
  · simp only [List.pairwise_append, List.pairwise_cons, List.Pairwise.nil, List.mem_singleton]
    refine ⟨h.disjoint, by simp, ?_⟩
    intro a ha c hc' l m hl hm
    subst hc'
    simp only at hm
    subst hm
    exact LArena.store_disjoint h.wf hst l (h.valid a ha l hl).1


theorem deThreadedLoop_spec {env : Env} {N : Nat} (entries : List (Bytes × Nat)) :
    ∀ (t : Threaded) (done : List (Bytes × Nat)) (b : Bucket) (rest : List Bucket),
      DeT env N t done → t.arena.buckets = b :: rest →
      sumNat (entries.map (fun e => e.1.length)) ≤ b.cap - b.data.length →
      (∀ e ∈ entries, 0 < e.2 ∧ e.2 ≤ N) →
      ∃ t', deThreadedLoop entries t = .ok t' ∧ DeT env N t' (done ++ entries) ∧ t'.N = t.N ∧ t'.unordered = t.unordered := by
  induction entries with
  | nil =>
    intro t done b rest h _ _ _
    exact ⟨t, rfl, by simpa using h, rfl, rfl⟩
  | cons e more ih =>
    intro t done b rest h hb hsum hraw
    obtain ⟨x, raw⟩ := e
    simp only [List.map_cons, sumNat] at hsum
    obtain ⟨a', ref, hst, hbk, hstep⟩ := DeT.step h x raw (hraw (x, raw) (by simp)) b rest hb (by omega)
    unfold deThreadedLoop
    simp only [hst]
    obtain ⟨t', he, hd, hN, hu⟩ := ih _ (done ++ [(x, raw)]) { b with data := b.data ++ x } rest hstep hbk
      (by simp; omega) (fun e he => hraw e (by simp [he]))
    exact ⟨t', he, by simpa using hd, hN, hu⟩

theorem dedupLast_sub (doc : List (Bytes × Nat)) : ∀ e ∈ dedupLast doc, e ∈ doc := by
  induction doc with
  | nil => simp [dedupLast]
  | cons a rest ih =>
    intro e he
    unfold dedupLast at he
    split at he
    · exact List.mem_cons_of_mem _ (ih e he)
    · simp only [List.mem_cons] at he
      rcases he with rfl | he
      · simp
      · exact List.mem_cons_of_mem _ (ih e he)

theorem dedupLast_nodup (doc : List (Bytes × Nat)) : ((dedupLast doc).map (·.1)).Nodup := by
  induction doc with
  | nil => simp [dedupLast]
  | cons a rest ih =>
    unfold dedupLast
    split
    · exact ih
    next hn =>
      simp only [List.map_cons, List.nodup_cons, List.mem_map]
      refine ⟨?_, ih⟩
      rintro ⟨e, he, heq⟩
      apply hn
      simp only [List.any_eq_true, beq_iff_eq]
      exact ⟨e, dedupLast_sub rest e he, heq⟩

/-- `n` distinct naturals below `n` are all of `0..n-1`. -/
theorem nodup_lt_full {l : List Nat} {n : Nat} (hnd : l.Nodup) (hlt : ∀ x ∈ l, x < n) (hlen : l.length = n) :
    ∀ k, k < n → k ∈ l := by
  intro k hk
  apply Classical.byContradiction
  intro hnot
  have hsub : l ⊆ (List.range n).erase k := by
    intro x hx
    have hxk : x ≠ k := fun h => hnot (h ▸ hx)
    exact (List.mem_erase_of_ne hxk).mpr (List.mem_range.mpr (hlt x hx))
  have := hnd.length_le_of_subset hsub
  rw [List.length_erase] at this
  simp [List.mem_range.mpr hk] at this
  omega

theorem nodup_lt_len {l : List Nat} {n : Nat} (hnd : l.Nodup) (hlt : ∀ x ∈ l, x < n) : l.length ≤ n := by
  have hsub : l ⊆ List.range n := fun x hx => List.mem_range.mpr (hlt x hx)
  simpa using hnd.length_le_of_subset hsub


theorem Loc.disjoint_symm {l m : Loc} (h : l.disjoint m) : m.disjoint l := by
  unfold Loc.disjoint at *
  rcases h with h | h | h
  · exact Or.inl (Ne.symm h)
  · exact Or.inr (Or.inr h)
  · exact Or.inr (Or.inl h)

/-- The final validation turns the loop invariant into the full interner invariant. -/
theorem DeT.finish {env : Env} {N : Nat} {t : Threaded} {done : List (Bytes × Nat)} (h : DeT env N t done)
    (hN : t.N = N) (hdn : (done.map (·.1)).Nodup)
    (hlen : t.strs.length = t.map.length) (hctr : t.ctr = t.strs.length) :
    t.Inv env ∧ ∀ e ∈ done, t.str env (indexOfKey e.2) = some e.1 := by
  obtain ⟨g1, g2⟩ := h.good hlen
  have hklt : ∀ k ref, (k, ref) ∈ t.strs → k < t.strs.length := by
    intro k ref hm
    have := h.ctrGt (ref, k) (h.strFrom k ref hm)
    simp only at this; omega
  have hlenEq : t.map.length = done.length := by
    have := congrArg List.length h.mapContent
    simpa using this
  -- content of the map entry at position p is the p-th processed string
  have hcontAt : ∀ p (hp : p < t.map.length), contentOf env t.arena.read (t.map[p]).1 = some (done[p]'(by omega)).1 := by
    intro p hp
    have h1 : (t.map.map (fun e => contentOf env t.arena.read e.1))[p]? = (done.map (fun e => some e.1))[p]? := by
      rw [h.mapContent]
    simp only [List.getElem?_map, List.getElem?_eq_getElem hp, List.getElem?_eq_getElem (show p < done.length by omega),
      Option.map_some, Option.some.injEq] at h1
    exact h1
  have hidxAt : ∀ p (hp : p < t.map.length), (t.map[p]).2 = indexOfKey (done[p]'(by omega)).2 := by
    intro p hp
    have h1 : (t.map.map (·.2))[p]? = (done.map (fun e => indexOfKey e.2))[p]? := by rw [h.mapIdx]
    simp only [List.getElem?_map, List.getElem?_eq_getElem hp, List.getElem?_eq_getElem (show p < done.length by omega),
      Option.map_some, Option.some.injEq] at h1
    exact h1
  have hstrOf : ∀ k ref, (k, ref) ∈ t.strs → ∀ y, t.str env k = some y ↔ contentOf env t.arena.read ref = some y := by
    intro k ref hm y
    simp only [Threaded.str, Threaded.resolveRef, Threaded.content, assocGet_of_mem h.strNd hm]
  have hinv : t.Inv env := by
    constructor
    · exact h.wf
    · exact g1
    · exact h.strFrom
    · exact h.strNd
    · exact g2
    · intro k
      constructor
      · intro hk
        have hnd := h.strNd
        have hall : ∀ x ∈ t.strs.map (·.1), x < t.strs.length := by
          intro x hx
          obtain ⟨e, he, rfl⟩ := List.mem_map.mp hx
          exact hklt e.1 e.2 he
        have := nodup_lt_full hnd hall (by simp) k hk
        obtain ⟨e, he, rfl⟩ := List.mem_map.mp this
        exact ⟨e.2, he⟩
      · rintro ⟨ref, hm⟩; exact hklt k ref hm
    · exact Or.inl hctr
    · intro k loc hm
      exact h.valid _ (h.strFrom k _ hm) loc rfl
    · intro k i hm
      exact absurd rfl (h.noStatic _ (h.strFrom k _ hm) i)
    · intro k1 l1 k2 l2 h1 h2 hne
      obtain ⟨p, hp, ep⟩ := List.getElem_of_mem (h.strFrom k1 _ h1)
      obtain ⟨q, hq, eq⟩ := List.getElem_of_mem (h.strFrom k2 _ h2)
      have hpw := List.pairwise_iff_getElem.mp h.disjoint
      have hpq : p ≠ q := by
        intro e; subst e
        rw [ep] at eq; injection eq with _ e2; exact hne e2
      rcases Nat.lt_or_gt_of_ne hpq with hlt | hgt
      · exact hpw p q hp hq hlt l1 l2 (by rw [ep]) (by rw [eq])
      · exact Loc.disjoint_symm (hpw q p hq hp hgt l2 l1 (by rw [eq]) (by rw [ep]))
    · intro i j y hi hj
      obtain ⟨ri, hmi, hci⟩ := (by
        unfold Threaded.str Threaded.resolveRef at hi
        cases hg : assocGet i t.strs with
        | none => simp [hg] at hi
        | some r => exact ⟨r, mem_of_assocGet hg, by simpa [hg] using hi⟩ : ∃ r, (i, r) ∈ t.strs ∧ t.content env r = some y)
      obtain ⟨rj, hmj, hcj⟩ := (by
        unfold Threaded.str Threaded.resolveRef at hj
        cases hg : assocGet j t.strs with
        | none => simp [hg] at hj
        | some r => exact ⟨r, mem_of_assocGet hg, by simpa [hg] using hj⟩ : ∃ r, (j, r) ∈ t.strs ∧ t.content env r = some y)
      obtain ⟨p, hp, ep⟩ := List.getElem_of_mem (h.strFrom i _ hmi)
      obtain ⟨q, hq, eq⟩ := List.getElem_of_mem (h.strFrom j _ hmj)
      have c1 := hcontAt p hp
      have c2 := hcontAt q hq
      rw [ep] at c1; rw [eq] at c2
      simp only [Threaded.content] at hci hcj
      rw [hci] at c1; rw [hcj] at c2
      injection c1 with c1; injection c2 with c2
      have hpq : p = q := by
        apply Classical.byContradiction
        intro hne
        have hpw := List.pairwise_iff_getElem.mp (List.nodup_iff_pairwise_ne.mp hdn)
        rcases Nat.lt_or_gt_of_ne hne with hlt | hgt
        · exact hpw p q (by simp; omega) (by simp; omega) hlt (by simp [← c1, ← c2])
        · exact hpw q p (by simp; omega) (by simp; omega) hgt (by simp [← c1, ← c2])
      subst hpq
      rw [ep] at eq; injection eq with _ e2
    · rw [hN]
      have hall : ∀ x ∈ t.strs.map (·.1), x < N := by
        intro x hx
        obtain ⟨e, he, rfl⟩ := List.mem_map.mp hx
        exact h.idxLt _ (h.strFrom e.1 e.2 he)
      simpa using nodup_lt_len h.strNd hall
  refine ⟨hinv, ?_⟩
  intro e he
  obtain ⟨p, hp, ep⟩ := List.getElem_of_mem he
  have hpm : p < t.map.length := by omega
  have hm : t.map[p] ∈ t.map := List.getElem_mem hpm
  have hs := g1 (t.map[p]).1 (t.map[p]).2 hm
  have hi := hidxAt p hpm
  have hc := hcontAt p hpm
  rw [ep] at hi hc
  rw [← hi]
  exact (hstrOf _ _ hs e.1).mpr hc


/-- The empty interner the deserialiser starts from. -/
def deT0 (N cap : Nat) : Threaded :=
  { map := [], strs := [], ctr := 0, arena := LArena.new cap usizeMax, N := N, unordered := true }

/-- `ThreadedRodeo::deserialize` on an arbitrary map document (repeated strings, repeated keys, gaps,
zero, values beyond the key range): a serde error, or a well-formed interner in which every entry of
the document (last occurrence per string) is found under its key.  Never a panic, never a fault. -/
theorem deThreaded_spec (env : Env) (N : Nat) (doc : List (Bytes × Nat)) :
    deThreaded N doc = .err .serde ∨
    ∃ t, deThreaded N doc = .ok t ∧ t.Inv env ∧ t.N = N ∧ t.strs.length = (dedupLast doc).length ∧
      ∀ e ∈ dedupLast doc, t.str env (indexOfKey e.2) = some e.1 := by
  unfold deThreaded
  by_cases hbad : doc.any (fun e => decide (e.2 = 0 ∨ e.2 > N)) = true
  · left; simp only [hbad, ↓reduceIte]
  · simp only [hbad, Bool.false_eq_true, ↓reduceIte]
    have hraw : ∀ e ∈ dedupLast doc, 0 < e.2 ∧ e.2 ≤ N := by
      intro e he
      have hm := dedupLast_sub doc e he
      simp only [List.any_eq_true, decide_eq_true_eq, not_exists, not_and] at hbad
      have := hbad e hm
      omega
    have hcapeq : docCapacity ((dedupLast doc).map (·.1)) = docCapacity ((dedupLast doc).map (·.1)) := rfl
    obtain ⟨hpos, hsum⟩ := docCapacity_pos ((dedupLast doc).map (·.1))
    let t0 : Threaded := deT0 N (docCapacity ((dedupLast doc).map (·.1)))
    have h0 : DeT env N t0 [] := by
      constructor <;> simp [t0, deT0, LArena.new_wf _ _ hpos]
    obtain ⟨t', he, hd, hN, _⟩ := deThreadedLoop_spec (env := env) (N := N) (dedupLast doc) t0 []
      { id := 0, cap := docCapacity ((dedupLast doc).map (·.1)), data := [] } [] h0 rfl
      (by simpa [List.map_map, Function.comp_def] using hsum) hraw
    simp only [List.nil_append] at hd
    simp only [t0, deT0] at he
    simp only [he]
    by_cases hchk : t'.strs.length ≠ t'.map.length ∨ t'.ctr ≠ t'.strs.length
    · left; simp only [hchk, ↓reduceIte]
    · right
      simp only [hchk, ↓reduceIte]
      have h1 : t'.strs.length = t'.map.length := by
        apply Classical.byContradiction; intro h; exact hchk (Or.inl h)
      have h2 : t'.ctr = t'.strs.length := by
        apply Classical.byContradiction; intro h; exact hchk (Or.inr h)
      obtain ⟨hinv, hstr⟩ := DeT.finish hd hN (dedupLast_nodup doc) h1 h2
      have hml : t'.map.length = (dedupLast doc).length := by
        have := congrArg List.length hd.mapContent
        simpa using this
      exact ⟨t', rfl, hinv, hN, by omega, hstr⟩


/-- On a document whose keys are pairwise distinct and exactly `1..n`, the final validation passes. -/
theorem DeT.check_passes {env : Env} {N : Nat} {t : Threaded} {done : List (Bytes × Nat)} (h : DeT env N t done)
    (hnd : (t.map.map (·.2)).Nodup) (hfull : ∀ k, k < t.map.length → ∃ e ∈ t.map, e.2 = k)
    (hlt : ∀ e ∈ t.map, e.2 < t.map.length) :
    t.strs.length = t.map.length ∧ t.ctr = t.strs.length := by
  have hperm : (t.strs.map (·.1)).Perm (t.map.map (·.2)) := by
    rw [List.perm_ext_iff_of_nodup h.strNd hnd]
    intro k
    simp only [List.mem_map]
    constructor
    · rintro ⟨e, he, rfl⟩; exact ⟨(e.2, e.1), h.strFrom e.1 e.2 he, rfl⟩
    · rintro ⟨e, he, rfl⟩
      obtain ⟨r, hr⟩ := h.strKeys e he
      exact ⟨(e.2, r), hr, rfl⟩
  have hl : t.strs.length = t.map.length := by simpa using hperm.length_eq
  refine ⟨hl, ?_⟩
  rcases h.ctrMax with ⟨h0, hm⟩ | ⟨e, he, hce⟩
  · rw [hl, hm, h0]; rfl
  · have h1 := hlt e he
    by_cases hz : t.map.length = 0
    · omega
    · obtain ⟨e', he', hk⟩ := hfull (t.map.length - 1) (by omega)
      have := h.ctrGt e' he'
      omega

theorem nodup_map_of_inj_on {f : α → β} {l : List α} (hnd : l.Nodup)
    (hinj : ∀ a ∈ l, ∀ b ∈ l, f a = f b → a = b) : (l.map f).Nodup := by
  induction l with
  | nil => simp
  | cons x rest ih =>
    simp only [List.nodup_cons] at hnd
    simp only [List.map_cons, List.nodup_cons, List.mem_map]
    refine ⟨?_, ih hnd.2 (fun a ha b hb => hinj a (by simp [ha]) b (by simp [hb]))⟩
    rintro ⟨y, hy, hxy⟩
    have := hinj y (by simp [hy]) x (by simp) hxy
    subst this
    exact hnd.1 hy

theorem dedupLast_of_nodup (doc : List (Bytes × Nat)) (h : (doc.map (·.1)).Nodup) : dedupLast doc = doc := by
  induction doc with
  | nil => rfl
  | cons a rest ih =>
    simp only [List.map_cons, List.nodup_cons, List.mem_map] at h
    unfold dedupLast
    have : rest.any (fun f => f.1 == a.1) = false := by
      rw [Bool.eq_false_iff]
      intro hany
      simp only [List.any_eq_true, beq_iff_eq] at hany
      obtain ⟨f, hf, hfa⟩ := hany
      exact h.1 ⟨f, hf, hfa⟩
    simp only [this, Bool.false_eq_true, ↓reduceIte, ih h.2]

/-- A well-formed map document (pairwise distinct strings, keys exactly `1..n`, within the key
range) is accepted. -/
theorem deThreaded_accepts (env : Env) (N : Nat) (doc : List (Bytes × Nat))
    (hs : (doc.map (·.1)).Nodup) (hk : (doc.map (·.2)).Nodup)
    (hrange : ∀ e ∈ doc, 0 < e.2 ∧ e.2 ≤ doc.length) (hN : doc.length ≤ N) :
    ∃ t, deThreaded N doc = .ok t ∧ t.Inv env ∧ t.N = N ∧ t.strs.length = doc.length ∧
      ∀ e ∈ doc, t.str env (indexOfKey e.2) = some e.1 := by
  have hdd := dedupLast_of_nodup doc hs
  unfold deThreaded
  have hbad : doc.any (fun e => decide (e.2 = 0 ∨ e.2 > N)) = false := by
    rw [Bool.eq_false_iff]
    intro hany
    simp only [List.any_eq_true, decide_eq_true_eq] at hany
    obtain ⟨e, he, hb⟩ := hany
    have := hrange e he
    omega
  simp only [hbad, Bool.false_eq_true, ↓reduceIte, hdd]
  have hraw : ∀ e ∈ doc, 0 < e.2 ∧ e.2 ≤ N := fun e he => by have := hrange e he; omega
  obtain ⟨hpos, hsum⟩ := docCapacity_pos (doc.map (·.1))
  let t0 : Threaded := deT0 N (docCapacity (doc.map (·.1)))
  have h0 : DeT env N t0 [] := by
    constructor <;> simp [t0, deT0, LArena.new_wf _ _ hpos]
  obtain ⟨t', he, hd, hN', _⟩ := deThreadedLoop_spec (env := env) (N := N) doc t0 []
    { id := 0, cap := docCapacity (doc.map (·.1)), data := [] } [] h0 rfl
    (by simpa [List.map_map, Function.comp_def] using hsum) hraw
  simp only [List.nil_append] at hd
  simp only [t0, deT0] at he
  simp only [he]
  have hml : t'.map.length = doc.length := by
    have := congrArg List.length hd.mapContent
    simpa using this
  have hidx : t'.map.map (·.2) = doc.map (fun e => indexOfKey e.2) := hd.mapIdx
  have hnd : (t'.map.map (·.2)).Nodup := by
    rw [hidx]
    have : doc.map (fun e => indexOfKey e.2) = (doc.map (·.2)).map indexOfKey := by simp [List.map_map, Function.comp_def]
    rw [this]
    refine nodup_map_of_inj_on hk ?_
    intro a ha b hb hab
    simp only [List.mem_map] at ha hb
    obtain ⟨ea, hea, rfl⟩ := ha
    obtain ⟨eb, heb, rfl⟩ := hb
    have := hrange ea hea
    have := hrange eb heb
    unfold indexOfKey at hab
    omega
  have hlt : ∀ e ∈ t'.map, e.2 < t'.map.length := by
    intro e he'
    have : e.2 ∈ t'.map.map (·.2) := List.mem_map.mpr ⟨e, he', rfl⟩
    rw [hidx] at this
    obtain ⟨d, hd', hde⟩ := List.mem_map.mp this
    have := hrange d hd'
    unfold indexOfKey at hde
    omega
  have hfull : ∀ k, k < t'.map.length → ∃ e ∈ t'.map, e.2 = k := by
    intro k hk'
    have hall : ∀ x ∈ t'.map.map (·.2), x < t'.map.length := by
      intro x hx
      obtain ⟨e, he', rfl⟩ := List.mem_map.mp hx
      exact hlt e he'
    have := nodup_lt_full hnd hall (by simp) k hk'
    obtain ⟨e, he', rfl⟩ := List.mem_map.mp this
    exact ⟨e, he', rfl⟩
  obtain ⟨c1, c2⟩ := DeT.check_passes hd hnd hfull hlt
  have hchk : ¬ (t'.strs.length ≠ t'.map.length ∨ t'.ctr ≠ t'.strs.length) := by
    rintro (h | h)
    · exact h c1
    · exact h c2
  simp only [hchk, ↓reduceIte]
  obtain ⟨hinv, hstr⟩ := DeT.finish hd hN' hs c1 c2
  exact ⟨t', rfl, hinv, hN', by omega, hstr⟩

end Lasso
