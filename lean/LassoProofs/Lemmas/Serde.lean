import LassoProofs.Lemmas.Clone
import LassoProofs.Lemmas.Views
import LassoModel.Serde
/-
  The deserialisers' loops.
-/
namespace Lasso
set_option linter.unusedSimpArgs false

/-- A string that fits the current block is stored there. -/
theorem Arena.store_fit_free (a : Arena) (x : Bytes) (hfit : x.length ≤ a.cur.free) :
    ∃ a' ref, a.store x = .ok (a', ref) ∧ a'.cur.free = a.cur.free - x.length ∧ a'.max = a.max := by
  unfold Arena.store Arena.storeFit Bucket.free at *
  by_cases h0 : x.length = 0
  · exact ⟨a, .empty, by simp [h0], by omega, rfl⟩
  · refine ⟨{ a with cur := { a.cur with data := a.cur.data ++ x } },
      .arena { bid := a.cur.id, off := a.cur.data.length, len := x.length }, ?_, ?_, rfl⟩
    · simp only [h0, hfit, ↓reduceIte]; rw [if_pos (by omega)]
    · simp; omega

/-- The loop of `Rodeo::deserialize` / `RodeoReader::deserialize` from a well-formed state whose
current block has room for all remaining strings: it ends in a well-formed interner holding the old
strings followed by the document's strings in order — exactly when those are pairwise distinct, new
and within the key capacity — and otherwise in a serde error.  Never a panic, never a fault. -/
theorem deListLoop_spec {env : Env} (xs : List Bytes) :
    ∀ (r : Rodeo), r.Inv env → sumNat (xs.map List.length) ≤ r.arena.cur.free →
    (∃ t ss a, deListLoop env r.N xs r.strings.length r.table r.strings r.arena = .ok (t, ss, a) ∧
        (Rodeo.ofParts t ss a r.N).Inv env ∧ ss.length = r.strings.length + xs.length ∧ a.max = r.arena.max ∧
        (∀ j y, r.str env j = some y → (Rodeo.ofParts t ss a r.N).str env j = some y) ∧
        (∀ j, j < xs.length → (Rodeo.ofParts t ss a r.N).str env (r.strings.length + j) = xs[j]?) ∧
        xs.Nodup ∧ (∀ x ∈ xs, ∀ k, r.str env k ≠ some x)) ∨
    (deListLoop env r.N xs r.strings.length r.table r.strings r.arena = .err .serde ∧
        ¬ (xs.Nodup ∧ (∀ x ∈ xs, ∀ k, r.str env k ≠ some x) ∧ r.strings.length + xs.length ≤ r.N)) := by
  induction xs with
  | nil =>
    intro r h _
    left
    exact ⟨r.table, r.strings, r.arena, rfl, h, by simp, rfl, fun _ _ h => h, by simp, by simp, by simp⟩
  | cons x rest ih =>
    intro r h hsum
    simp only [List.map_cons, sumNat] at hsum
    obtain ⟨a', ref, hst, hfree, _⟩ := Arena.store_fit_free r.arena x (by omega)
    unfold deListLoop
    simp only [hst]
    obtain ⟨_, hf2, hpush⟩ := Rodeo.push_after_store h hst false
    simp only [hf2]
    cases hf : tfind env.hash (r.str env) r.table x with
    | some k =>
      right
      refine ⟨rfl, ?_⟩
      rintro ⟨_, hnew, _⟩
      exact hnew x (by simp) k (tfind_some hf).1
    | none =>
      have hxnew : ∀ k, r.str env k ≠ some x := fun k hk => tfind_none h.tinv hf k (Rodeo.Inv.str_lt hk) hk
      simp only
      unfold keyOfIndex
      by_cases hlt : r.strings.length < r.N
      · simp only [hlt, ↓reduceIte]
        obtain ⟨hins, hp⟩ := hpush hxnew hlt
        simp only [hins]
        let r1 : Rodeo := { r with table := r.table ++ [(env.hash x, r.strings.length)], strings := r.strings ++ [ref], arena := a' }
        have hlen1 : r1.strings.length = r.strings.length + 1 := by simp [r1]
        have hN1 : r1.N = r.N := rfl
        have := ih r1 hp.inv (by show _ ≤ a'.cur.free; omega)
        rw [hlen1, hN1] at this
        rcases this with ⟨t, ss, a, he, hi, hl, hm, hold, hnewstr, hnd, hnw⟩ | ⟨he, hnot⟩
        · left
          refine ⟨t, ss, a, he, hi, by simp [hl]; omega, by rw [hm]; exact hp.maxSame, ?_, ?_, ?_, ?_⟩
          · intro j y hj; exact hold j y (hp.old j y hj)
          · intro j hj
            cases j with
            | zero => simpa using hold _ _ hp.newStr
            | succ j' =>
              have := hnewstr j' (by simp at hj; omega)
              simp only [List.getElem?_cons_succ]
              rw [← this]; congr 1; omega
          · simp only [List.nodup_cons]
            refine ⟨?_, hnd⟩
            intro hx
            exact hnw x hx r.strings.length hp.newStr
          · intro y hy k hk
            simp only [List.mem_cons] at hy
            rcases hy with rfl | hy
            · exact hxnew k hk
            · exact hnw y hy k (hp.old k _ hk)
        · right
          refine ⟨he, ?_⟩
          rintro ⟨hnd, hnw, hle⟩
          simp only [List.nodup_cons] at hnd
          apply hnot
          refine ⟨hnd.2, ?_, by simp at hle; omega⟩
          intro y hy k hk
          rcases Rodeo.Pushed.onlyNew h hp k y hk with ⟨_, rfl⟩ | hold
          · exact hnd.1 hy
          · exact hnw y (by simp [hy]) k hold
      · right
        refine ⟨by simp [hlt], ?_⟩
        rintro ⟨_, _, hle⟩
        simp at hle; omega


theorem docCapacity_pos (doc : List Bytes) : 0 < docCapacity doc ∧ sumNat (doc.map List.length) ≤ docCapacity doc := by
  unfold docCapacity
  simp only
  split <;> omega

/-- `Rodeo::deserialize` on an arbitrary list of strings: a well-formed interner whose key `j` is the
`j`-th string — exactly when the strings are pairwise distinct and within the key capacity — and a
serde error otherwise.  Never a panic or a fault. -/
theorem deRodeo_spec (env : Env) (N : Nat) (doc : List Bytes) :
    (∃ r, deRodeo env N doc = .ok r ∧ r.Inv env ∧ r.N = N ∧ r.strings.length = doc.length ∧
        (∀ j, r.str env j = doc[j]?) ∧ doc.Nodup ∧ doc.length ≤ N) ∨
    (deRodeo env N doc = .err .serde ∧ ¬ (doc.Nodup ∧ doc.length ≤ N)) := by
  obtain ⟨hpos, hsum⟩ := docCapacity_pos doc
  let r0 : Rodeo := Rodeo.new N (docCapacity doc) usizeMax
  have h0 : r0.Inv env := Rodeo.new_inv env N _ _ hpos
  have hspec := deListLoop_spec (env := env) doc r0 h0 (by simp [r0, Rodeo.new, Arena.new, Bucket.free]; exact hsum)
  have e0 : r0.strings.length = 0 := rfl
  have e1 : r0.table = [] := rfl
  have e2 : r0.strings = [] := rfl
  have e3 : r0.arena = Arena.new (docCapacity doc) usizeMax := rfl
  have e4 : r0.N = N := rfl
  rw [e0, e1, e2, e3, e4] at hspec
  unfold deRodeo
  rcases hspec with ⟨t, ss, a, he, hi, hl, _, _, hnew, hnd, _⟩ | ⟨he, hnot⟩
  · left
    simp only [he]
    refine ⟨_, rfl, hi, rfl, by simpa using hl, ?_, hnd, ?_⟩
    · intro j
      by_cases hj : j < doc.length
      · have := hnew j hj
        simp only [Nat.zero_add] at this
        exact this
      · rw [List.getElem?_eq_none (by omega)]
        apply Option.eq_none_iff_forall_ne_some.mpr
        intro y hy
        have := Rodeo.Inv.str_lt hy
        simp at this hl
        omega
    · have := hi.lenLe
      simp [Rodeo.ofParts] at this hl
      omega
  · right
    refine ⟨by simp [he], ?_⟩
    rintro ⟨hnd, hle⟩
    apply hnot
    exact ⟨hnd, by intro x _ k; simp [r0, Rodeo.new, Rodeo.str, strAt], by simpa using hle⟩

/-- What makes a resolver safe to use. -/
structure Resolver.Good (env : Env) (rs : Resolver) : Prop where
  total : ∀ k, k < rs.strings.length → ∃ y, rs.str env k = some y
  lenLe : rs.strings.length ≤ rs.N

theorem deResolverLoop_spec {env : Env} (xs : List Bytes) :
    ∀ (ss : List StrRef) (a : Arena), a.WF → sumNat (xs.map List.length) ≤ a.cur.free →
      (∀ k, k < ss.length → ∃ y, strAt env a.read ss k = some y) →
      ∃ ss' a', deResolverLoop xs ss a = .ok (ss', a') ∧ a'.WF ∧ ss'.length = ss.length + xs.length ∧
        (∀ k y, strAt env a.read ss k = some y → strAt env a'.read ss' k = some y) ∧
        (∀ j, j < xs.length → strAt env a'.read ss' (ss.length + j) = xs[j]?) := by
  induction xs with
  | nil =>
    intro ss a hwf _ _
    exact ⟨ss, a, rfl, hwf, by simp, fun _ _ h => h, by simp⟩
  | cons x rest ih =>
    intro ss a hwf hsum htot
    simp only [List.map_cons, sumNat] at hsum
    obtain ⟨a', ref, hst, hfree, _⟩ := Arena.store_fit_free a x (by omega)
    unfold deResolverLoop
    simp only [hst]
    have hwf' := Arena.store_wf hwf hst
    have hmono : ∀ l y, a.read l = some y → a'.read l = some y := fun l y hr => Arena.store_read_old hwf hst l y hr
    have hc : contentOf env a'.read ref = some x := by
      rcases Arena.store_nonempty_ref hst with ⟨h0, rfl, _⟩ | ⟨_, loc, rfl, _⟩
      · simp [contentOf]; exact List.eq_nil_of_length_eq_zero h0
      · simp only [contentOf]; exact Arena.store_read_new hwf hst
    have hS : ∀ k y, strAt env a.read ss k = some y → strAt env a'.read (ss ++ [ref]) k = some y := by
      intro k y hk
      have hl := strAt_lt hk
      rw [strAt_append]; simp only [hl, ↓reduceIte]
      exact strAt_mono hmono hk
    obtain ⟨ss', a'', he, hwf'', hl, hold, hnew⟩ := ih (ss ++ [ref]) a' hwf' (by omega)
      (by
        intro k hk
        simp at hk
        by_cases hkl : k < ss.length
        · obtain ⟨y, hy⟩ := htot k hkl
          exact ⟨y, hS k y hy⟩
        · have : k = ss.length := by omega
          subst this
          exact ⟨x, by rw [strAt_append]; simp [hc]⟩)
    refine ⟨ss', a'', he, hwf'', by simp at hl ⊢; omega, fun k y hk => hold k y (hS k y hk), ?_⟩
    intro j hj
    cases j with
    | zero =>
      have : strAt env a'.read (ss ++ [ref]) ss.length = some x := by rw [strAt_append]; simp [hc]
      simpa using hold _ _ this
    | succ j' =>
      have := hnew j' (by simp at hj; omega)
      simp only [List.getElem?_cons_succ]
      rw [← this]; congr 1; simp; omega

/-- `RodeoResolver::deserialize` on an arbitrary list of strings (repetitions allowed): a resolver
whose key `j` is the `j`-th string when the list is within the key capacity, a serde error otherwise. -/
theorem deResolver_spec (env : Env) (N : Nat) (doc : List Bytes) :
    (∃ rs, deResolver N doc = .ok rs ∧ rs.Good env ∧ rs.N = N ∧ rs.strings.length = doc.length ∧
        (∀ j, j < doc.length → rs.str env j = doc[j]?) ∧ doc.length ≤ N) ∨
    (deResolver N doc = .err .serde ∧ N < doc.length) := by
  obtain ⟨hpos, hsum⟩ := docCapacity_pos doc
  unfold deResolver
  by_cases hbig : doc.length ≠ 0 ∧ (keyOfIndex N (doc.length - 1)).isNone
  · right
    rw [if_pos hbig]
    refine ⟨rfl, ?_⟩
    obtain ⟨h0, hk⟩ := hbig
    unfold keyOfIndex at hk
    split at hk <;> simp at hk
    omega
  · left
    rw [if_neg hbig]
    have hle : doc.length ≤ N := by
      by_cases h0 : doc.length = 0
      · omega
      · have : ¬ (keyOfIndex N (doc.length - 1)).isNone = true := fun h => hbig ⟨h0, h⟩
        unfold keyOfIndex at this
        split at this <;> simp at this
        omega
    obtain ⟨ss', a', he, hwf', hl, _, hnew⟩ := deResolverLoop_spec (env := env) doc [] (Arena.new (docCapacity doc) usizeMax)
      (Arena.new_wf _ _ hpos) (by simp [Arena.new, Bucket.free]; exact hsum) (by simp)
    simp only [he]
    simp only [List.length_nil, Nat.zero_add] at hl hnew
    refine ⟨_, rfl, ⟨?_, by simp; omega⟩, rfl, by simpa using hl, ?_, hle⟩
    · intro k hk
      simp only at hk
      have := hnew k (by omega)
      refine ⟨doc[k]'(by omega), ?_⟩
      show strAt env a'.read ss' k = _
      rw [this]; exact List.getElem?_eq_getElem (by omega)
    · intro j hj
      show strAt env a'.read ss' j = _
      exact hnew j hj

end Lasso
