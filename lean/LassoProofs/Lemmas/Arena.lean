import LassoModel.Arena
/-
  Helper lemmas about the single-threaded arena (free to change; property statements live in
  LassoProofs/Cxx.lean).
-/
namespace Lasso
set_option linter.unusedSimpArgs false

theorem sumNat_append (a b : List Nat) : sumNat (a ++ b) = sumNat a + sumNat b := by
  induction a with
  | nil => simp [sumNat]
  | cons x xs ih => simp [sumNat, ih]; omega

theorem sumCaps_append (a b : List Bucket) : sumCaps (a ++ b) = sumCaps a + sumCaps b := by
  simp [sumCaps, sumNat_append]

theorem sumCaps_cons (x : Bucket) (l : List Bucket) : sumCaps (x :: l) = x.cap + sumCaps l := by
  simp [sumCaps, sumNat]

theorem mem_insertBeforeLast (x : α) (l : List α) (y : α) : y ∈ insertBeforeLast x l ↔ y = x ∨ y ∈ l := by
  induction l with
  | nil => simp [insertBeforeLast]
  | cons a r ih =>
    cases r with
    | nil => simp [insertBeforeLast]
    | cons b r' =>
      simp only [insertBeforeLast, List.mem_cons] at *
      grind

theorem insertBeforeLast_perm (x : α) (l : List α) : (insertBeforeLast x l).Perm (x :: l) := by
  induction l with
  | nil => simp [insertBeforeLast]
  | cons a r ih =>
    cases r with
    | nil => simp [insertBeforeLast]
    | cons b r' =>
      simp only [insertBeforeLast]
      exact (List.Perm.cons a ih).trans (List.Perm.swap x a _)

theorem sumCaps_perm {a b : List Bucket} (h : a.Perm b) : sumCaps a = sumCaps b := by
  induction h with
  | nil => rfl
  | cons x _ ih => simp [sumCaps_cons, ih]
  | swap x y l => simp [sumCaps_cons]; omega
  | trans _ _ ih1 ih2 => exact ih1.trans ih2

theorem sumCaps_insertBeforeLast (x : Bucket) (l : List Bucket) :
    sumCaps (insertBeforeLast x l) = x.cap + sumCaps l := by
  rw [sumCaps_perm (insertBeforeLast_perm x l), sumCaps_cons]

/-- Well-formedness of the arena: what `store` preserves and what makes the unchecked copy safe. -/
structure Arena.WF (a : Arena) : Prop where
  fits : ∀ b ∈ a.all, b.data.length ≤ b.cap
  ids : (a.all.map (·.id)).Nodup
  fresh : ∀ b ∈ a.all, b.id < a.nextId
  usage_eq : a.usage = sumCaps a.all
  capPos : 0 < a.bucketCap

theorem Arena.new_wf (cap max : Nat) (h : 0 < cap) : (Arena.new cap max).WF := by
  constructor <;> simp [Arena.new, Arena.all, sumCaps, sumNat, h]


/-- All four growth branches, unfolded. -/
theorem Arena.store_def (a : Arena) (s : Bytes) : a.store s =
    (if s.length = 0 then .ok (a, .empty)
     else if s.length ≤ a.cur.free then a.storeFit s
     else if s.length > a.bucketCap * 2 then a.storeOversize s
     else if a.usage + a.bucketCap * 2 > a.max then a.storeRemaining s
     else a.storeDouble s) := rfl

theorem Arena.store_no_fault {a : Arena} (h : a.WF) (s : Bytes) (f : Fault) : a.store s ≠ .fault f := by
  obtain ⟨h1, h2, h3, h4, h5⟩ := h
  simp only [Arena.all, List.mem_cons] at *
  unfold Arena.store Arena.storeFit Arena.storeOversize Arena.storeRemaining Arena.storeDouble Bucket.free
  grind

theorem Arena.store_no_panic {a : Arena} (s : Bytes) : a.store s ≠ .panic := by
  unfold Arena.store Arena.storeFit Arena.storeOversize Arena.storeRemaining Arena.storeDouble Bucket.free
  grind

theorem Arena.storeFit_wf {a a' : Arena} {s : Bytes} {r : StrRef} (h : a.WF)
    (hs : a.storeFit s = .ok (a', r)) : a'.WF := by
  obtain ⟨h1, h2, h3, h4, h5⟩ := h
  unfold Arena.storeFit at hs
  split at hs <;> simp at hs
  obtain ⟨rfl, rfl⟩ := hs
  constructor <;> simp_all [Arena.all, sumCaps_cons]

theorem Arena.storeOversize_wf {a a' : Arena} {s : Bytes} {r : StrRef} (h : a.WF)
    (hs : a.storeOversize s = .ok (a', r)) : a'.WF := by
  obtain ⟨h1, h2, h3, h4, h5⟩ := h
  unfold Arena.storeOversize at hs
  split at hs <;> simp at hs
  obtain ⟨rfl, rfl⟩ := hs
  have hp := insertBeforeLast_perm (Arena.freshBlock a.nextId s.length s) a.full
  constructor
  · simp only [Arena.all, List.mem_cons, mem_insertBeforeLast, Arena.freshBlock] at *
    grind
  · simp only [Arena.all, List.map_cons, List.nodup_cons, List.mem_map] at *
    rw [(hp.map _).nodup_iff]
    simp only [List.map_cons, List.nodup_cons, List.mem_cons, List.mem_map, mem_insertBeforeLast, Arena.freshBlock]
    grind
  · simp only [Arena.all, List.mem_cons, mem_insertBeforeLast, Arena.freshBlock] at *
    grind
  · simp only [Arena.all, sumCaps_cons, sumCaps_insertBeforeLast, Arena.freshBlock] at *
    omega
  · exact h5

theorem Arena.storeRemaining_wf {a a' : Arena} {s : Bytes} {r : StrRef} (h : a.WF)
    (hs : a.storeRemaining s = .ok (a', r)) : a'.WF := by
  obtain ⟨h1, h2, h3, h4, h5⟩ := h
  unfold Arena.storeRemaining at hs
  simp only at hs
  split at hs <;> try simp at hs
  split at hs <;> try simp at hs
  split at hs <;> try simp at hs
  split at hs <;> try simp at hs
  obtain ⟨rfl, rfl⟩ := hs
  constructor
  · simp only [Arena.all, List.mem_cons, List.mem_append, Arena.freshBlock] at *
    grind
  · simp only [Arena.all, List.map_cons, List.map_append, List.nodup_cons, List.mem_map, List.mem_append, List.mem_cons, Arena.freshBlock] at *
    grind [List.nodup_append]
  · simp only [Arena.all, List.mem_cons, List.mem_append, Arena.freshBlock] at *
    grind
  · simp only [Arena.all, sumCaps_cons, sumCaps_append, Arena.freshBlock] at *
    simp [sumCaps, sumNat] at *; omega
  · exact h5

theorem Arena.storeDouble_wf {a a' : Arena} {s : Bytes} {r : StrRef} (h : a.WF)
    (hs : a.storeDouble s = .ok (a', r)) : a'.WF := by
  obtain ⟨h1, h2, h3, h4, h5⟩ := h
  unfold Arena.storeDouble at hs
  simp only at hs
  split at hs <;> try simp at hs
  split at hs <;> try simp at hs
  obtain ⟨rfl, rfl⟩ := hs
  constructor
  · simp only [Arena.all, List.mem_cons, List.mem_append, Arena.freshBlock] at *
    grind
  · simp only [Arena.all, List.map_cons, List.map_append, List.nodup_cons, List.mem_map, List.mem_append, List.mem_cons, Arena.freshBlock] at *
    grind [List.nodup_append]
  · simp only [Arena.all, List.mem_cons, List.mem_append, Arena.freshBlock] at *
    grind
  · simp only [Arena.all, sumCaps_cons, sumCaps_append, Arena.freshBlock] at *
    simp [sumCaps, sumNat] at *; omega
  · simp; omega

theorem Arena.store_wf {a a' : Arena} {s : Bytes} {r : StrRef} (h : a.WF) (hs : a.store s = .ok (a', r)) : a'.WF := by
  rw [Arena.store_def] at hs
  split at hs
  · simp at hs; obtain ⟨rfl, _⟩ := hs; exact h
  split at hs
  · exact Arena.storeFit_wf h hs
  split at hs
  · exact Arena.storeOversize_wf h hs
  split at hs
  · exact Arena.storeRemaining_wf h hs
  · exact Arena.storeDouble_wf h hs


/-! ### Reading -/

theorem readIn_cons (b : Bucket) (bs : List Bucket) (loc : Loc) :
    readIn (b :: bs) loc = if b.id = loc.bid then b.readAt loc.off loc.len else readIn bs loc := by
  unfold readIn
  simp only [List.find?_cons]
  by_cases h : b.id = loc.bid
  · simp [h]
  · have : (b.id == loc.bid) = false := by simp [h]
    simp [this, h]

theorem readIn_some_mem {bs : List Bucket} {loc : Loc} {x : Bytes} (h : readIn bs loc = some x) :
    ∃ b ∈ bs, b.id = loc.bid ∧ b.readAt loc.off loc.len = some x := by
  induction bs with
  | nil => simp [readIn] at h
  | cons b bs ih =>
    rw [readIn_cons] at h
    split at h
    · exact ⟨b, by simp, by assumption, h⟩
    · obtain ⟨c, hc, h1, h2⟩ := ih h
      exact ⟨c, by simp [hc], h1, h2⟩

theorem readIn_of_mem {bs : List Bucket} (hnd : (bs.map (·.id)).Nodup) {b : Bucket} (hb : b ∈ bs) (loc : Loc)
    (hid : b.id = loc.bid) : readIn bs loc = b.readAt loc.off loc.len := by
  induction bs with
  | nil => simp at hb
  | cons c bs ih =>
    rw [readIn_cons]
    simp only [List.map_cons, List.nodup_cons, List.mem_map] at hnd
    simp only [List.mem_cons] at hb
    rcases hb with rfl | hb
    · simp [hid]
    · have : c.id ≠ loc.bid := by
        intro hc; apply hnd.1; exact ⟨b, hb, by rw [hid, hc]⟩
      simp [this]; exact ih hnd.2 hb

theorem readIn_perm {a b : List Bucket} (hp : a.Perm b) (hnd : (a.map (·.id)).Nodup) (loc : Loc) :
    readIn a loc = readIn b loc := by
  have hnb : (b.map (·.id)).Nodup := (hp.map _).nodup_iff.mp hnd
  cases h : readIn a loc with
  | some x =>
    obtain ⟨c, hc, h1, h2⟩ := readIn_some_mem h
    rw [readIn_of_mem hnb (hp.mem_iff.mp hc) loc h1, h2]
  | none =>
    cases h' : readIn b loc with
    | none => rfl
    | some x =>
      obtain ⟨c, hc, h1, h2⟩ := readIn_some_mem h'
      rw [readIn_of_mem hnd (hp.mem_iff.mpr hc) loc h1, h2] at h
      simp at h

theorem take_drop_append_left (d s : Bytes) (off len : Nat) (h : off + len ≤ d.length) :
    ((d ++ s).drop off).take len = (d.drop off).take len := by
  rw [List.drop_append_of_le_length (by omega), List.take_append_of_le_length (by simp; omega)]

theorem Bucket.readAt_append {b : Bucket} {off len : Nat} {x : Bytes} (s : Bytes)
    (h : b.readAt off len = some x) : ({ b with data := b.data ++ s } : Bucket).readAt off len = some x := by
  unfold Bucket.readAt at *
  split at h <;> simp at h
  subst h
  have : off + len ≤ (b.data ++ s).length := by simp; omega
  simp only [this, ↓reduceIte]
  rw [take_drop_append_left _ _ _ _ (by assumption)]

theorem Bucket.readAt_new (b : Bucket) (s : Bytes) :
    ({ b with data := b.data ++ s } : Bucket).readAt b.data.length s.length = some s := by
  unfold Bucket.readAt
  simp


/-! ### What `store` does -/

theorem Arena.store_empty (a : Arena) : a.store [] = .ok (a, .empty) := by simp [Arena.store]

theorem Arena.store_usage {a a' : Arena} {s : Bytes} {r : StrRef} (hs : a.store s = .ok (a', r)) :
    a'.max = a.max ∧ (a'.usage = a.usage ∨ (a.usage < a'.usage ∧ a'.usage ≤ a.max)) := by
  unfold Arena.store Arena.storeFit Arena.storeOversize Arena.storeRemaining Arena.storeDouble Bucket.free at hs
  grind

theorem Arena.store_err {a : Arena} {s : Bytes} {e : Err} (hs : a.store s = .err e) :
    e = .memoryLimit ∧ s.length ≠ 0 ∧ a.cur.free < s.length ∧ a.usage + s.length > a.max := by
  unfold Arena.store Arena.storeFit Arena.storeOversize Arena.storeRemaining Arena.storeDouble Bucket.free at hs
  unfold Bucket.free
  grind

theorem Arena.store_err_of {a : Arena} {s : Bytes} (h0 : s.length ≠ 0) (h1 : a.cur.free < s.length)
    (h2 : a.usage + s.length > a.max) : a.store s = .err .memoryLimit := by
  unfold Arena.store Arena.storeFit Arena.storeOversize Arena.storeRemaining Arena.storeDouble
  unfold Bucket.free at h1
  unfold Bucket.free
  grind

theorem Arena.store_nonempty_ref {a a' : Arena} {s : Bytes} {r : StrRef} (hs : a.store s = .ok (a', r)) :
    (s.length = 0 ∧ r = .empty ∧ a' = a) ∨ (s.length ≠ 0 ∧ ∃ loc, r = .arena loc ∧ loc.len = s.length) := by
  unfold Arena.store Arena.storeFit Arena.storeOversize Arena.storeRemaining Arena.storeDouble Bucket.free at hs
  grind

/-- The location handed out reads back exactly the stored bytes. -/
theorem Arena.store_read_new {a a' : Arena} {s : Bytes} {loc : Loc} (h : a.WF)
    (hs : a.store s = .ok (a', .arena loc)) : a'.read loc = some s := by
  have hwf' := Arena.store_wf h hs
  obtain ⟨h1, h2, h3, h4, h5⟩ := h
  rw [Arena.store_def] at hs
  split at hs
  · simp at hs
  split at hs
  · unfold Arena.storeFit at hs
    split at hs <;> simp at hs
    obtain ⟨rfl, rfl⟩ := hs
    simp [Arena.read, Arena.all, readIn_cons, Bucket.readAt]
  split at hs
  · unfold Arena.storeOversize at hs
    split at hs <;> simp at hs
    obtain ⟨rfl, rfl⟩ := hs
    have hp := insertBeforeLast_perm (Arena.freshBlock a.nextId s.length s) a.full
    unfold Arena.read
    have hnd := hwf'.ids
    rw [readIn_of_mem hnd (b := Arena.freshBlock a.nextId s.length s)]
    · simp [Arena.freshBlock, Bucket.readAt]
    · simp [Arena.all, mem_insertBeforeLast]
    · simp [Arena.freshBlock]
  split at hs
  · unfold Arena.storeRemaining at hs
    simp only at hs
    split at hs <;> try simp at hs
    split at hs <;> try simp at hs
    split at hs <;> try simp at hs
    split at hs <;> try simp at hs
    obtain ⟨rfl, rfl⟩ := hs
    simp [Arena.read, Arena.all, readIn_cons, Bucket.readAt, Arena.freshBlock]
  · unfold Arena.storeDouble at hs
    simp only at hs
    split at hs <;> try simp at hs
    split at hs <;> try simp at hs
    obtain ⟨rfl, rfl⟩ := hs
    simp [Arena.read, Arena.all, readIn_cons, Bucket.readAt, Arena.freshBlock]


theorem readIn_fresh_none {bs : List Bucket} {loc : Loc} (h : ∀ b ∈ bs, b.id ≠ loc.bid) : readIn bs loc = none := by
  cases hr : readIn bs loc with
  | none => rfl
  | some x =>
    obtain ⟨c, hc, h1, _⟩ := readIn_some_mem hr
    exact absurd h1 (h c hc)

/-- Every location that was readable stays readable with the same bytes: stored strings are never
moved or overwritten. -/
theorem Arena.store_read_old {a a' : Arena} {s : Bytes} {r : StrRef} (h : a.WF)
    (hs : a.store s = .ok (a', r)) (l : Loc) (x : Bytes) (hr : a.read l = some x) : a'.read l = some x := by
  have hwf' := Arena.store_wf h hs
  obtain ⟨c, hc, hid, hrd⟩ := readIn_some_mem hr
  have hlt : c.id < a.nextId := h.fresh c hc
  obtain ⟨h1, h2, h3, h4, h5⟩ := h
  rw [Arena.store_def] at hs
  split at hs
  · simp at hs; obtain ⟨rfl, _⟩ := hs; exact hr
  split at hs
  · unfold Arena.storeFit at hs
    split at hs <;> simp at hs
    obtain ⟨rfl, rfl⟩ := hs
    simp only [Arena.read, Arena.all, readIn_cons] at *
    split
    · simp_all
      exact Bucket.readAt_append s hr
    · simp_all
  split at hs
  · unfold Arena.storeOversize at hs
    split at hs <;> simp at hs
    obtain ⟨rfl, rfl⟩ := hs
    have hp := insertBeforeLast_perm (Arena.freshBlock a.nextId s.length s) a.full
    unfold Arena.read at *
    have hnd := hwf'.ids
    rw [readIn_of_mem hnd (b := c) _ l hid, hrd]
    simp only [Arena.all, List.mem_cons, mem_insertBeforeLast] at *
    grind
  split at hs
  · unfold Arena.storeRemaining at hs
    simp only at hs
    split at hs <;> try simp at hs
    split at hs <;> try simp at hs
    split at hs <;> try simp at hs
    split at hs <;> try simp at hs
    obtain ⟨rfl, rfl⟩ := hs
    unfold Arena.read at *
    have hnd := hwf'.ids
    rw [readIn_of_mem hnd (b := c) _ l hid, hrd]
    simp only [Arena.all, List.mem_cons, List.mem_append] at *
    grind
  · unfold Arena.storeDouble at hs
    simp only at hs
    split at hs <;> try simp at hs
    split at hs <;> try simp at hs
    obtain ⟨rfl, rfl⟩ := hs
    unfold Arena.read at *
    have hnd := hwf'.ids
    rw [readIn_of_mem hnd (b := c) _ l hid, hrd]
    simp only [Arena.all, List.mem_cons, List.mem_append] at *
    grind

/-- A location is *valid* in an arena when it lies inside the initialised prefix of one of its blocks. -/
def Arena.valid (a : Arena) (l : Loc) : Prop := ∃ b ∈ a.all, b.id = l.bid ∧ l.off + l.len ≤ b.data.length

theorem Arena.valid_iff_read {a : Arena} (h : a.WF) (l : Loc) : a.valid l ↔ ∃ x, a.read l = some x := by
  constructor
  · rintro ⟨b, hb, hid, hle⟩
    refine ⟨(b.data.drop l.off).take l.len, ?_⟩
    unfold Arena.read
    rw [readIn_of_mem h.ids hb l hid]
    simp [Bucket.readAt, hle]
  · rintro ⟨x, hx⟩
    obtain ⟨c, hc, hid, hrd⟩ := readIn_some_mem hx
    refine ⟨c, hc, hid, ?_⟩
    unfold Bucket.readAt at hrd
    split at hrd <;> simp_all

/-- Two locations overlap when they name the same block and their byte ranges intersect. -/
def Loc.disjoint (l m : Loc) : Prop := l.bid ≠ m.bid ∨ l.off + l.len ≤ m.off ∨ m.off + m.len ≤ l.off

/-- The region handed out by `store` is disjoint from every region that was valid before. -/
theorem Arena.store_disjoint {a a' : Arena} {s : Bytes} {loc : Loc} (h : a.WF)
    (hs : a.store s = .ok (a', .arena loc)) (l : Loc) (hv : a.valid l) : l.disjoint loc := by
  obtain ⟨c, hc, hid, hle⟩ := hv
  have hlt : c.id < a.nextId := h.fresh c hc
  obtain ⟨h1, h2, h3, h4, h5⟩ := h
  unfold Arena.store Arena.storeFit Arena.storeOversize Arena.storeRemaining Arena.storeDouble Bucket.free at hs
  unfold Loc.disjoint
  simp only [Arena.all, List.mem_cons, List.map_cons, List.nodup_cons, List.mem_map] at *
  grind

end Lasso
