import LassoProofs.C02
import LassoModel.Extracted
import LassoProofs.Lemmas.Config
/-
  C13 — clear() empties the interner completely and leaves it fully usable.
-/
namespace Lasso.C13
open Lasso Lasso.C02

/-- After `clear`: count 0, every key unknown to the safe lookup paths (and `resolve` panics, as
documented), every string-to-key lookup answers "absent", iteration yields nothing — for every
previously issued key and every string, whatever the history before. -/
theorem clear_empty (env : Env) (r : Rodeo) (k : Nat) (x : Bytes) :
    r.clear.len = 0 ∧ r.clear.tryResolve env k = .ok none ∧ r.clear.containsKey k = false ∧
    r.clear.resolve env k = .panic ∧ r.clear.get env x = .ok none ∧ r.clear.iter env = .ok [] := by
  simp [Rodeo.clear, Rodeo.len, Rodeo.tryResolve, tryResolveIn, Rodeo.containsKey, Rodeo.resolve, resolveIn,
    Rodeo.get, tableFind, Rodeo.iter, iterIn]

/-- The cleared interner is a valid empty interner: the invariant holds again, so every theorem about
reachable states (round trip C01, uniqueness C02, failure behaviour C07, memory cap C08, density C10)
applies verbatim to every later history — `clear` is one of the operations of a history, so any
number of fill/clear cycles is covered by the induction over histories. -/
theorem clear_reach {env : Env} {r : Rodeo} (h : RodeoReach env r) : RodeoReach env r.clear := by
  obtain ⟨N, cap, max, ops, hc, hw, rfl⟩ := h
  refine ⟨N, cap, max, ops ++ [.clear], hc, ?_, ?_⟩
  · intro op hop
    simp only [List.mem_append, List.mem_singleton] at hop
    rcases hop with hop | rfl
    · exact hw op hop
    · trivial
  · simp [Rodeo.run, Rodeo.apply]

theorem clear_inv {env : Env} {r : Rodeo} (h : RodeoReach env r) : r.clear.Inv env :=
  rodeo_reach_inv (clear_reach h)

/-- Numbering restarts at 0: the first new string after a clear gets key 0 (given room for it). -/
theorem numbering_restarts {env : Env} {r : Rodeo} (h : RodeoReach env r) (x : Bytes) (g : Bool)
    (r' : Rodeo) (k : Nat) (hs : r.clear.tryIntern env x g = .ok (r', k)) : k = 0 := by
  rcases Rodeo.tryIntern_spec (clear_inv h) x g with ⟨j, hj, _⟩ | ⟨_, ⟨_, he⟩ | ⟨_, ⟨_, he⟩ | ⟨r'', ref, he, _, _⟩⟩⟩
  · simp [Rodeo.clear, Rodeo.str, strAt] at hj
  · rw [he] at hs; simp at hs
  · rw [he] at hs; simp at hs
  · rw [he] at hs; injection hs with hs; injection hs with a b; subst b; simp [Rodeo.clear]

/-- `clear` keeps the blocks (capacity and accounting); only their fill index is reset. -/
theorem clear_mem (r : Rodeo) : r.clear.arena.usage = r.arena.usage ∧ r.clear.arena.max = r.arena.max ∧
    r.clear.arena.all.map (·.cap) = r.arena.all.map (·.cap) ∧ ∀ b ∈ r.clear.arena.all, b.data = [] := by
  refine ⟨rfl, rfl, ?_, ?_⟩
  · simp [Rodeo.clear, Arena.clear, Arena.all, Bucket.clear, List.map_map, Function.comp_def]
  · intro b hb
    simp only [Rodeo.clear, Arena.clear, Arena.all, List.mem_cons, List.mem_map, Bucket.clear] at hb
    rcases hb with rfl | ⟨c, _, rfl⟩ <;> rfl

/-! ### Non-vacuity: fill, clear, refill -/
example : (match (Rodeo.new 255 2 1000).tryIntern C02.constEnv [1, 2, 3] true with
    | .ok (r, _) => (match r.clear.tryIntern C02.constEnv [4] true with
      | .ok (r', k) => decide (k = 0 ∧ r'.len = 1)
      | _ => false)
    | _ => false) = true := by decide

/-! ### Tie to the source

`Rodeo.clear` in the model clears the table, the string vector and every block, unconditionally.  The
body of `Rodeo::clear` regenerated from the source is exactly the three `clear()` calls. -/
theorem clear_body_is_three_clears : Extracted.rodeoClearBody = .clears [.map, .strings, .arena] := by decide

/-- ... and the arena's `clear` resets every block of its vector, unconditionally, each by setting its fill index to
0 - what `clear_mem` says of the model (`∀ b ∈ r.clear.arena.all, b.data = []`).  A loop that stops early, skips a
block or is taken only under a condition is an unrecognised shape. -/
theorem arena_clear_rewinds_every_block :
    Extracted.arenaClearShape = .everyBlock ∧ Extracted.bucketClearResetsIndex = true := by decide

/-- The code this file's theorems are about is the same under every feature configuration: the regenerated
census of conditional compilation contains import blocks, whole serde impls, optional-dependency impls and
module declarations only, and no gate inside any function body (`Lemmas/Config.lean`). -/
theorem same_code_under_every_feature_configuration :
    (Extracted.cfgGates.all fun g => g.kind != .other) = true ∧ Extracted.bodyGates.isEmpty = true :=
  Lasso.one_code_base_for_all_configurations

end Lasso.C13
