import LassoProofs.Lemmas.ConcArenaHist
import LassoModel.Extracted
import LassoProofs.Lemmas.Config
/-
  C09 — the memory limit also holds when threads intern concurrently.

  Quantified over: any number of threads, any programs, any first-block capacity and limit, every
  schedule of the arena machine (`ConcArena.lean`: the loads of capacity / usage / limit in `store_str`,
  the load of the limit and the atomic check-and-add in `allocate_memory` are separate steps) and every
  pattern of spurious compare-exchange failures.

  Limit changes racing with interning are events of the schedule (`runE`).  Allocation failure of the
  global allocator is not modelled.
-/
namespace Lasso.C09
open Lasso Lasso.CA

section
variable (cap max : Nat) (programs : List (List Bytes))

/-- **The reported usage never exceeds the limit**, in every state any thread can observe. (An arena
is created with its first block already allocated; `cap ≤ max` is what the constructors guarantee.) -/
theorem usage_never_exceeds_limit (hcm : cap ≤ max) (sched : List (Nat × Bool)) :
    (run (init cap max programs) sched).usage ≤ max := by
  have hi := reach_inv cap max programs sched
  have hm : (run (init cap max programs) sched).hi = max := (run_limits sched _).2
  have := hi.capOk
  rw [hm] at this
  exact Nat.le_trans this (Nat.max_le.mpr ⟨hcm, Nat.le_refl _⟩)

/-- Without the assumption on the first block: the usage never exceeds the larger of the first block
and the limit. -/
theorem usage_bound (sched : List (Nat × Bool)) :
    (run (init cap max programs) sched).usage ≤ Nat.max cap (run (init cap max programs) sched).max := by
  have h := (reach_inv cap max programs sched).capOk
  rw [(run_limits sched _).2] at h
  rw [(run_limits sched (init cap max programs)).1]
  exact h

/-- **Limit changes racing with interning** (`Ev.setMax` events anywhere in the schedule, the store of
`set_memory_limits` being one atomic step): a thread may claim against a limit it loaded before the
limit was lowered, so "usage ≤ the limit now" cannot hold — what does hold in every reachable state is
that the usage never exceeds the highest limit that was ever in force (or the first block). -/
theorem usage_never_exceeds_highest_limit (evs : List Ev) (B : Nat) (hc : cap ≤ B) (hm : max ≤ B)
    (hall : ∀ m, Ev.setMax m ∈ evs → m ≤ B) :
    (runE (init cap max programs) evs).usage ≤ B := by
  have hi := runE_inv evs (init_inv cap max programs)
  have hh := runE_hi_le evs (init cap max programs) B (by simpa [init] using hm) hall
  exact Nat.le_trans hi.capOk (Nat.max_le.mpr ⟨hc, hh⟩)

/-- The accounting identity also holds while the limit changes. -/
theorem usage_is_held_under_limit_changes (evs : List Ev) :
    (runE (init cap max programs) evs).usage =
      capSum (runE (init cap max programs) evs).buckets + owned (runE (init cap max programs) evs).ts :=
  runE_acct evs (init_inv cap max programs) (init_acct cap max programs)

/-- **The usage is exactly the storage held**: at every moment it equals the capacity of the published
blocks plus that of blocks a thread has allocated and is about to publish … -/
theorem usage_is_held (sched : List (Nat × Bool)) :
    (run (init cap max programs) sched).usage =
      capSum (run (init cap max programs) sched).buckets + owned (run (init cap max programs) sched).ts :=
  run_acct sched (init_inv cap max programs) (init_acct cap max programs)

/-- … and at quiescence it equals the bytes of the storage blocks in the arena. -/
theorem quiescent_usage (sched : List (Nat × Bool)) (hq : quiescent (run (init cap max programs) sched) = true) :
    (run (init cap max programs) sched).usage = capSum (run (init cap max programs) sched).buckets := by
  have h := usage_is_held cap max programs sched
  have : owned (run (init cap max programs) sched).ts = 0 := by
    apply owned_quiescent
    intro th hth
    unfold quiescent at hq
    simp only [List.all_eq_true, Bool.and_eq_true, beq_iff_eq] at hq
    exact (hq th hth).1
  omega

end

/-! ### Tie to the source

The model claims the budget in one atomic step (`allocUpd`).  That is faithful only if the source
checks and adds with ONE read-modify-write; the extractor reports the shape of `allocate_memory`. -/

theorem budget_claim_is_atomic : Extracted.allocShape = .casLoop := by decide

/-- Why the shape matters: with a separate check and add, two threads that both pass the check
overshoot the limit.  (`usage`, `limit`, two requests; both check, then both add.) -/
def checkThenAdd (usage limit : Nat) (reqs : List Nat) : Nat :=
  let passed := reqs.filter fun r => usage + r ≤ limit       -- every thread checks first …
  usage + passed.sum                                          -- … then every thread adds

theorem check_then_add_overshoots : ∃ usage limit reqs, checkThenAdd usage limit reqs > limit :=
  ⟨8, 12, [4, 4], by decide⟩

/-! ### The hypotheses are met by real runs -/

/-- Two threads each need a new block; the limit admits only one of them. -/
def demo : List (Nat × Bool) := (List.replicate 40 [(0, false), (1, false)]).flatten

example : (run (init 2 4 [[[1, 2], [3, 4]], [[5, 6], [7, 8]]]) demo).usage = 4 ∧
    quiescent (run (init 2 4 [[[1, 2], [3, 4]], [[5, 6], [7, 8]]]) demo) = true ∧
    (run (init 2 4 [[[1, 2], [3, 4]], [[5, 6], [7, 8]]]) demo).log.any (fun e => e.2.2 == .err) = true := by decide

/-- Why "usage ≤ the limit *now*" is not claimed under racing limit changes: one thread loads the limit
(64), the limit is lowered to 2, the thread claims against the 64 it saw — in the source exactly as in
the model (`max_memory_usage.load` precedes the `fetch_update`). -/
def staleLimit : List Ev := List.replicate 13 (Ev.th 0 false) ++ [Ev.setMax 2] ++ List.replicate 4 (Ev.th 0 false)

example : (runE (init 2 64 [[[1, 2], [3, 4]]]) staleLimit).usage = 6 ∧ (runE (init 2 64 [[[1, 2], [3, 4]]]) staleLimit).max = 2 := by
  decide

/-- The code this file's theorems are about is the same under every feature configuration: the regenerated
census of conditional compilation contains import blocks, whole serde impls, optional-dependency impls and
module declarations only, and no gate inside any function body (`Lemmas/Config.lean`). -/
theorem same_code_under_every_feature_configuration :
    (Extracted.cfgGates.all fun g => g.kind != .other) = true ∧ Extracted.bodyGates.isEmpty = true :=
  Lasso.one_code_base_for_all_configurations

end Lasso.C09
