import LassoProofs.C06
import LassoProofs.Lemmas.Grow
import LassoProofs.C12
import LassoProofs.Lemmas.Config
/-
  C04 — memory safety: no history of safe calls corrupts, leaks or escapes the arena.

  "Unsafe" in the model means `Out.fault`: every unchecked operation of the source (`push_slice`,
  `index_unchecked!`, `index_unchecked_mut!`, `get_unchecked`, the `unwrap`s of the scatter, the
  `unreachable!`s) is modelled as a checked one that yields a fault when its unstated precondition is
  false.  The theorems say: in every reachable state the layout facts hold, and no operation faults.

  Partial: that every block is released exactly once when the owners are gone (`Drop`) is not
  modelled; it is checked on the real code by the counting allocator of the harness (net allocated
  bytes return to the baseline over every case) and by the ASan/Miri tiers.
-/
namespace Lasso.C04
open Lasso Lasso.C02

/-- Layout facts of every reachable single-threaded interner: no block is filled beyond its
capacity, block identities are distinct, every stored (non-static, non-empty) string occupies a
non-empty region inside the initialised part of one block *of this interner*, and regions of
different keys never overlap. -/
theorem rodeo_layout {env : Env} {r : Rodeo} (h : RodeoReach env r) :
    (∀ b ∈ r.arena.all, b.data.length ≤ b.cap) ∧ (r.arena.all.map (·.id)).Nodup ∧
    (∀ loc, StrRef.arena loc ∈ r.strings → r.arena.valid loc ∧ loc.len ≠ 0) ∧
    r.strings.Pairwise (fun a b => ∀ l m, a = .arena l → b = .arena m → l.disjoint m) := by
  have hi := rodeo_reach_inv h
  exact ⟨hi.wf.fits, hi.wf.ids, hi.valid, hi.disjoint⟩

theorem threaded_layout {env : Env} {t : Threaded} (h : ThreadedReach env t) :
    (∀ b ∈ t.arena.buckets, b.data.length ≤ b.cap) ∧ (t.arena.buckets.map (·.id)).Nodup ∧
    (∀ k loc, (k, StrRef.arena loc) ∈ t.strs → t.arena.valid loc ∧ loc.len ≠ 0) ∧
    (∀ k1 l1 k2 l2, (k1, StrRef.arena l1) ∈ t.strs → (k2, StrRef.arena l2) ∈ t.strs → k1 ≠ k2 → l1.disjoint l2) := by
  have hi := threaded_reach_inv h
  exact ⟨hi.wf.fits, hi.wf.ids, hi.valid, hi.disjoint⟩

/-- No interning call on a reachable interner faults or panics (the fallible forms), for any string
length relative to the block size and any limit — in particular the unchecked bump copy is always in
bounds. -/
theorem rodeo_intern_safe {env : Env} {r : Rodeo} (h : RodeoReach env r) (x : Bytes) (g : Bool) :
    (∀ f, r.tryIntern env x g ≠ .fault f) ∧ r.tryIntern env x g ≠ .panic := by
  rcases Rodeo.tryIntern_spec (rodeo_reach_inv h) x g with ⟨_, _, he⟩ | ⟨_, ⟨_, he⟩ | ⟨_, ⟨_, he⟩ | ⟨_, _, he, _, _⟩⟩⟩ <;>
    rw [he] <;> simp

theorem rodeo_intern_static_safe {env : Env} {r : Rodeo} (h : RodeoReach env r) (i : Nat) (hi : i < env.pool.length) (g : Bool) :
    (∀ f, r.tryInternStatic env i g ≠ .fault f) ∧ r.tryInternStatic env i g ≠ .panic := by
  have hp : env.pool[i]? = some env.pool[i] := List.getElem?_eq_getElem hi
  rcases Rodeo.tryInternStatic_spec (rodeo_reach_inv h) i _ hp g with ⟨_, _, he⟩ | ⟨_, ⟨_, he⟩ | ⟨_, _, he, _, _⟩⟩ <;>
    rw [he] <;> simp

theorem threaded_intern_safe {env : Env} {t : Threaded} (h : ThreadedReach env t) (x : Bytes) :
    (∀ f, (t.tryIntern env x).2 ≠ .fault f) ∧ (t.tryIntern env x).2 ≠ .panic := by
  rcases Threaded.tryIntern_spec (threaded_reach_inv h) x with ⟨_, _, he⟩ | ⟨_, ⟨_, he⟩ | ⟨_, _, _, ⟨_, he, _, _⟩ | ⟨_, he, _⟩⟩⟩ <;>
    rw [he] <;> simp

/-- Lookups and every resolution path never fault (no out-of-bounds index into the key->string
table, no dangling reference). -/
theorem rodeo_queries_safe {env : Env} {r : Rodeo} (h : RodeoReach env r) (x : Bytes) (k : Nat) (f : Fault) :
    r.get env x ≠ .fault f ∧ r.resolve env k ≠ .fault f ∧ r.tryResolve env k ≠ .fault f ∧ r.iter env ≠ .fault f := by
  have hi := rodeo_reach_inv h
  obtain ⟨o, ho, _⟩ := Rodeo.get_spec hi x
  refine ⟨by simp [ho], ?_⟩
  by_cases hk : k < r.strings.length
  · obtain ⟨y, hy⟩ := hi.str_total k hk
    obtain ⟨a, b, _, l, d, _⟩ := Rodeo.paths hi k y hy
    simp [a, b, d]
  · obtain ⟨a, b, _⟩ := Rodeo.unknown_key env r k (by omega)
    refine ⟨by simp [a], by simp [b], ?_⟩
    obtain ⟨l, h1, _, _⟩ := iterIn_spec env r.arena.read r.N r.strings 0 (by have := hi.lenLe; omega)
      (fun ref hr => hi.content_some ref hr)
    simp [Rodeo.iter, h1]

/-- Cloning never faults; clone-into never faults (it succeeds or reports the target's memory limit). -/
theorem clone_safe {env : Env} {r : Rodeo} (h : RodeoReach env r) (g : Bool) : ∃ c, r.tryClone env g = .ok c := by
  obtain ⟨c, hc, _⟩ := C12.clone_eq h g
  exact ⟨c, hc⟩

theorem clone_from_safe {env : Env} {target source : Rodeo} (ht : RodeoReach env target) (hs : RodeoReach env source)
    (hN : target.N = source.N) (g : Bool) (f : Fault) :
    Rodeo.tryCloneFrom env target source g ≠ .fault f ∧ Rodeo.tryCloneFrom env target source g ≠ .panic := by
  rcases C12.cloneFrom_fresh ht hs hN g with ⟨r', he, _⟩ | he <;> rw [he] <;> simp

/-- The conversions of the concurrent interner (scatter by key index with `index_unchecked_mut!`,
`unwrap` of every slot, rebuild of the table with `index_unchecked!`) never fault. -/
theorem threaded_conversions_safe {env : Env} {t : Threaded} (h : ThreadedReach env t) :
    (∃ rs, t.intoResolver = .ok rs) ∧ (∃ rd, t.intoReader env = .ok rd) := by
  obtain ⟨rs, h1, _⟩ := C06.threaded_into_resolver h
  obtain ⟨rd, h2, _⟩ := C06.threaded_into_reader h
  exact ⟨⟨rs, h1⟩, ⟨rd, h2⟩⟩

/-- `clear` and changing the limit keep the layout facts (they are operations of the history
language; stated separately because `clear` resets every block's fill index). -/
theorem clear_keeps_layout {env : Env} {r : Rodeo} (h : RodeoReach env r) :
    (∀ b ∈ r.clear.arena.all, b.data.length ≤ b.cap) ∧ r.clear.strings = [] :=
  ⟨(rodeo_layout (C13_clear_reach h)).1, rfl⟩
where
  C13_clear_reach {env : Env} {r : Rodeo} (h : RodeoReach env r) : RodeoReach env r.clear := by
    obtain ⟨N, cap, max, ops, hc, hw, rfl⟩ := h
    refine ⟨N, cap, max, ops ++ [.clear], hc, ?_, ?_⟩
    · intro op hop
      simp only [List.mem_append, List.mem_singleton] at hop
      rcases hop with hop | rfl
      · exact hw op hop
      · trivial
    · simp [Rodeo.run, Rodeo.apply]

/-! ### Tie to the source: the growth logic of both arenas is regenerated from `store_str`

`Extracted.arenaGrow` / `Extracted.lockfreeGrow` are the decision trees the extractor translates from
the statements of `store_str` after the search for a block with room (conditions, amount claimed from
the budget, block size and how it is built, stored capacity, placement).  For every arena state and
every string the model does exactly what the tree says. -/
theorem growth_logic_is_source :
    (∀ (a : Arena) (s : Bytes), s.length ≠ 0 → ¬ s.length ≤ a.cur.free →
      (Grow.eval (a.env s) Extracted.arenaGrow).map (a.applyOutcome s) = some (a.store s)) ∧
    (∀ (a : LArena) (s : Bytes),
      (Grow.eval (a.env s) Extracted.lockfreeGrow).map (a.applyOutcome s) = some (a.grow s)) ∧
    Extracted.arenaAllocateIsCheckThenAdd = true :=
  ⟨arena_store_is_source_tree, larena_grow_is_source_tree, arena_allocate_shape⟩

/-- The code this file's theorems are about is the same under every feature configuration: the regenerated
census of conditional compilation contains import blocks, whole serde impls, optional-dependency impls and
module declarations only, and no gate inside any function body (`Lemmas/Config.lean`). -/
theorem same_code_under_every_feature_configuration :
    (Extracted.cfgGates.all fun g => g.kind != .other) = true ∧ Extracted.bodyGates.isEmpty = true :=
  Lasso.one_code_base_for_all_configurations

end Lasso.C04
