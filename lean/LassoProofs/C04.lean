import LassoProofs.C06
import LassoProofs.Lemmas.Grow
import LassoProofs.C12
import LassoProofs.Lemmas.Config
import LassoProofs.Lemmas.Release
/-
  C04 — memory safety: no history of safe calls corrupts, leaks or escapes the arena.

  "Unsafe" in the model means `Out.fault`: every unchecked operation of the source (`push_slice`,
  `index_unchecked!`, `index_unchecked_mut!`, `get_unchecked`, the `unwrap`s of the scatter, the
  `unreachable!`s) is modelled as a checked one that yields a fault when its unstated precondition is
  false.  The theorems say: in every reachable state the layout facts hold, and no operation faults.

  Release (`Drop`): the last section.  The hand-written list walk of the concurrent arena is interpreted
  from its regenerated statements and proved, for every list, to free each node once with its own layout
  and never to touch a freed node; the single-threaded block frees its own pointer with the layout it was
  allocated with; no other code allocates, frees or takes a value out of the drop discipline; blocks are
  held by value along `Rodeo/ThreadedRodeo/Reader/Resolver -> arena -> blocks`; and in the model no
  operation gives a block up before the owner is dropped.  That dropping a `Vec`, an enum or a struct
  drops each element / field exactly once is Rust's drop glue (trusted); on the real code the counting
  allocator of the harness (net allocated bytes return to the baseline over every case) and the Miri tier
  stay in place as the implementation-side oracle.
-/
namespace Lasso.C04
open Lasso Lasso.C02

/-- Layout facts of every reachable single-threaded interner: no block is filled beyond its
capacity, block identities are distinct, every stored (non-static, non-empty) string occupies a
non-empty region inside the initialised part of one block *of this interner*, and regions of
different keys never overlap. -/
theorem rodeo_layout {env : Env} {r : Rodeo} (h : RodeoReach env r) :
    (∀ b ∈ r.arena.all, b.data.length ≤ b.cap) ∧ (r.arena.all.map (·.id)).Nodup ∧
    (∀ loc, StrRef.arena loc ∈ r.strings → r.arena.valid loc ∧ loc.len ≠ 0) ∧
    r.strings.Pairwise (fun a b => ∀ l m, a = .arena l → b = .arena m → l.disjoint m) := by
  have hi := rodeo_reach_inv h
  exact ⟨hi.wf.fits, hi.wf.ids, hi.valid, hi.disjoint⟩

theorem threaded_layout {env : Env} {t : Threaded} (h : ThreadedReach env t) :
    (∀ b ∈ t.arena.buckets, b.data.length ≤ b.cap) ∧ (t.arena.buckets.map (·.id)).Nodup ∧
    (∀ k loc, (k, StrRef.arena loc) ∈ t.strs → t.arena.valid loc ∧ loc.len ≠ 0) ∧
    (∀ k1 l1 k2 l2, (k1, StrRef.arena l1) ∈ t.strs → (k2, StrRef.arena l2) ∈ t.strs → k1 ≠ k2 → l1.disjoint l2) := by
  have hi := threaded_reach_inv h
  exact ⟨hi.wf.fits, hi.wf.ids, hi.valid, hi.disjoint⟩

/-- No interning call on a reachable interner faults or panics (the fallible forms), for any string
length relative to the block size and any limit — in particular the unchecked bump copy is always in
bounds. -/
theorem rodeo_intern_safe {env : Env} {r : Rodeo} (h : RodeoReach env r) (x : Bytes) (g : Bool) :
    (∀ f, r.tryIntern env x g ≠ .fault f) ∧ r.tryIntern env x g ≠ .panic := by
  rcases Rodeo.tryIntern_spec (rodeo_reach_inv h) x g with ⟨_, _, he⟩ | ⟨_, ⟨_, he⟩ | ⟨_, ⟨_, he⟩ | ⟨_, _, he, _, _⟩⟩⟩ <;>
    rw [he] <;> simp

theorem rodeo_intern_static_safe {env : Env} {r : Rodeo} (h : RodeoReach env r) (i : Nat) (hi : i < env.pool.length) (g : Bool) :
    (∀ f, r.tryInternStatic env i g ≠ .fault f) ∧ r.tryInternStatic env i g ≠ .panic := by
  have hp : env.pool[i]? = some env.pool[i] := List.getElem?_eq_getElem hi
  rcases Rodeo.tryInternStatic_spec (rodeo_reach_inv h) i _ hp g with ⟨_, _, he⟩ | ⟨_, ⟨_, he⟩ | ⟨_, _, he, _, _⟩⟩ <;>
    rw [he] <;> simp

theorem threaded_intern_safe {env : Env} {t : Threaded} (h : ThreadedReach env t) (x : Bytes) :
    (∀ f, (t.tryIntern env x).2 ≠ .fault f) ∧ (t.tryIntern env x).2 ≠ .panic := by
  rcases Threaded.tryIntern_spec (threaded_reach_inv h) x with ⟨_, _, he⟩ | ⟨_, ⟨_, he⟩ | ⟨_, _, _, ⟨_, he, _, _⟩ | ⟨_, he, _⟩⟩⟩ <;>
    rw [he] <;> simp

/-- Lookups and every resolution path never fault (no out-of-bounds index into the key->string
table, no dangling reference). -/
theorem rodeo_queries_safe {env : Env} {r : Rodeo} (h : RodeoReach env r) (x : Bytes) (k : Nat) (f : Fault) :
    r.get env x ≠ .fault f ∧ r.resolve env k ≠ .fault f ∧ r.tryResolve env k ≠ .fault f ∧ r.iter env ≠ .fault f := by
  have hi := rodeo_reach_inv h
  obtain ⟨o, ho, _⟩ := Rodeo.get_spec hi x
  refine ⟨by simp [ho], ?_⟩
  by_cases hk : k < r.strings.length
  · obtain ⟨y, hy⟩ := hi.str_total k hk
    obtain ⟨a, b, _, l, d, _⟩ := Rodeo.paths hi k y hy
    simp [a, b, d]
  · obtain ⟨a, b, _⟩ := Rodeo.unknown_key env r k (by omega)
    refine ⟨by simp [a], by simp [b], ?_⟩
    obtain ⟨l, h1, _, _⟩ := iterIn_spec env r.arena.read r.N r.strings 0 (by have := hi.lenLe; omega)
      (fun ref hr => hi.content_some ref hr)
    simp [Rodeo.iter, h1]

/-- Cloning never faults; clone-into never faults (it succeeds or reports the target's memory limit). -/
theorem clone_safe {env : Env} {r : Rodeo} (h : RodeoReach env r) (g : Bool) : ∃ c, r.tryClone env g = .ok c := by
  obtain ⟨c, hc, _⟩ := C12.clone_eq h g
  exact ⟨c, hc⟩

theorem clone_from_safe {env : Env} {target source : Rodeo} (ht : RodeoReach env target) (hs : RodeoReach env source)
    (hN : target.N = source.N) (g : Bool) (f : Fault) :
    Rodeo.tryCloneFrom env target source g ≠ .fault f ∧ Rodeo.tryCloneFrom env target source g ≠ .panic := by
  rcases C12.cloneFrom_fresh ht hs hN g with ⟨r', he, _⟩ | he <;> rw [he] <;> simp

/-- The conversions of the concurrent interner (scatter by key index with `index_unchecked_mut!`,
`unwrap` of every slot, rebuild of the table with `index_unchecked!`) never fault. -/
theorem threaded_conversions_safe {env : Env} {t : Threaded} (h : ThreadedReach env t) :
    (∃ rs, t.intoResolver = .ok rs) ∧ (∃ rd, t.intoReader env = .ok rd) := by
  obtain ⟨rs, h1, _⟩ := C06.threaded_into_resolver h
  obtain ⟨rd, h2, _⟩ := C06.threaded_into_reader h
  exact ⟨⟨rs, h1⟩, ⟨rd, h2⟩⟩

/-- `clear` and changing the limit keep the layout facts (they are operations of the history
language; stated separately because `clear` resets every block's fill index). -/
theorem clear_keeps_layout {env : Env} {r : Rodeo} (h : RodeoReach env r) :
    (∀ b ∈ r.clear.arena.all, b.data.length ≤ b.cap) ∧ r.clear.strings = [] :=
  ⟨(rodeo_layout (C13_clear_reach h)).1, rfl⟩
where
  C13_clear_reach {env : Env} {r : Rodeo} (h : RodeoReach env r) : RodeoReach env r.clear := by
    obtain ⟨N, cap, max, ops, hc, hw, rfl⟩ := h
    refine ⟨N, cap, max, ops ++ [.clear], hc, ?_, ?_⟩
    · intro op hop
      simp only [List.mem_append, List.mem_singleton] at hop
      rcases hop with hop | rfl
      · exact hw op hop
      · trivial
    · simp [Rodeo.run, Rodeo.apply]

/-! ### Tie to the source: the growth logic of both arenas is regenerated from `store_str`

`Extracted.arenaGrow` / `Extracted.lockfreeGrow` are the decision trees the extractor translates from
the statements of `store_str` after the search for a block with room (conditions, amount claimed from
the budget, block size and how it is built, stored capacity, placement).  For every arena state and
every string the model does exactly what the tree says. -/
theorem growth_logic_is_source :
    (∀ (a : Arena) (s : Bytes), s.length ≠ 0 → ¬ s.length ≤ a.cur.free →
      (Grow.eval (a.env s) Extracted.arenaGrow).map (a.applyOutcome s) = some (a.store s)) ∧
    (∀ (a : LArena) (s : Bytes),
      (Grow.eval (a.env s) Extracted.lockfreeGrow).map (a.applyOutcome s) = some (a.grow s)) ∧
    Extracted.arenaAllocateIsCheckThenAdd = true :=
  ⟨arena_store_is_source_tree, larena_grow_is_source_tree, arena_allocate_shape⟩

/-! ### Release: every block is handed back exactly once, when the owner goes -/

/-- Source side.  The only allocator calls outside tests and hooks are the two `alloc`s of the block constructors
and the two `dealloc`s of the `Drop` impls; nothing takes a value out of the drop discipline (`forget`, `leak`,
`into_raw`, `from_raw`, `ManuallyDrop`).  `impl Drop for Bucket` frees the block's own pointer, once,
unconditionally, with the very layout expression of `Bucket::with_capacity`; the concurrent block is allocated and
freed with `AtomicBucket::layout(capacity)`. -/
theorem release_sites_are_source :
    Extracted.memSites =
      [ { file := "arenas/atomic_bucket.rs", func := "AtomicBucket::with_capacity", kind := .alloc "alloc" },
        { file := "arenas/atomic_bucket.rs", func := "AtomicBucketList::drop", kind := .dealloc "dealloc" },
        { file := "arenas/bucket.rs", func := "Bucket::drop", kind := .dealloc "dealloc" },
        { file := "arenas/bucket.rs", func := "Bucket::with_capacity", kind := .alloc "alloc" } ] ∧
    Extracted.bucketRelease.allocLayout = Extracted.bucketRelease.releaseLayout ∧
    Extracted.bucketRelease.pointerIsOwn = true ∧ Extracted.bucketRelease.deallocCalls = 1 ∧
    Extracted.bucketRelease.conditional = false ∧
    Extracted.atomicAllocLayout = Extracted.atomicReleaseLayout := by decide

/-- Field types of a struct, regenerated from the source. -/
def fields (n : Source.TCon) : List Source.TyE := ((Extracted.structDefs.filter (·.name == n)).map (·.fields)).flatten

/-- The type `C` itself: held by value, not behind a reference, pointer or counter. -/
def isPlain (c : Source.TCon) : Source.TyE → Bool
  | .app c' [] => c' == c
  | _ => false

def isVecOf (c : Source.TCon) : Source.TyE → Bool
  | .app .vec [t] => isPlain c t
  | _ => false

/-- Blocks are held by value all the way down (no reference counting, no raw sharing): the interners and the
views own an arena, the arena of a view is one of the two arenas, the single-threaded arena owns a vector of
blocks and the concurrent one the list.  So dropping the last owner runs exactly one of the two releases below. -/
theorem blocks_are_owned_by_value :
    (fields .rodeo).any (isPlain .arena) = true ∧ (fields .threadedRodeo).any (isPlain .lockfreeArena) = true ∧
    (fields .reader).any (isPlain .anyArena) = true ∧ (fields .resolver).any (isPlain .anyArena) = true ∧
    ((fields .anyArena).length = 2 ∧ (fields .anyArena).any (isPlain .arena) = true ∧
      (fields .anyArena).any (isPlain .lockfreeArena) = true) ∧
    (fields .arena).any (isVecOf .bucket) = true ∧
    (fields .lockfreeArena).any (isPlain .atomicBucketList) = true := by decide

/-- The hand-written walk of `impl Drop for AtomicBucketList`, interpreted from its regenerated statements on a
list of **every** length and with any capacities: it terminates, frees node 0, 1, .. n-1 - each exactly once,
each with the layout of its own capacity, each only after its `next` and `capacity` fields were read - and
nothing else; on the model's arena that is exactly `LArena.release`. -/
theorem list_walk_releases_every_block_once :
    (∀ caps : List Nat, runListDrop Extracted.listDropEffects caps = some (List.range caps.length)) ∧
    (∀ a : LArena, a.releaseBy Extracted.listDropEffects = some a.release) :=
  walkAccepted_spec (by decide)

/-- A walk that frees a node before reading its `next` field is rejected (the interpreter is not vacuous). -/
example : runListDrop [.loadHead, .whileHeadNonNull, .saveCurrent, .readCapacity .current, .layoutOfCapacity,
    .dealloc .current true, .advance .head, .loopEnd] [8, 16] = none := by decide
example : runListDrop Extracted.listDropEffects [8, 16, 4] = some [0, 1, 2] := by decide

/-- Single-threaded interner: whatever happened before and whatever happens afterwards (growth, `clear`, limit
changes, failed calls), every block the interner ever held is among the blocks released when it is finally
dropped - with the capacity it was allocated with - and no block is released twice. -/
theorem rodeo_blocks_released_exactly_once {env : Env} {r : Rodeo} (h : RodeoReach env r) (later : List ROp)
    (hw : ∀ op ∈ later, ROp.wellFormed env op) :
    (∀ x ∈ r.arena.release, x ∈ (r.run env later).arena.release) ∧
    ((r.run env later).arena.release.map (·.id)).Nodup := by
  constructor
  · intro x hx
    obtain ⟨b, hb, rfl⟩ := Arena.mem_release.mp hx
    obtain ⟨b', hb', e⟩ := Rodeo.run_keeps_blocks env r later b hb
    exact Arena.mem_release.mpr ⟨b', hb', e⟩
  · exact Arena.release_ids_nodup (Rodeo.run_inv (rodeo_reach_inv h) later hw).wf

/-- Concurrent interner (one-thread semantics; the racing allocation paths are C05's `ids` invariant). -/
theorem threaded_blocks_released_exactly_once {env : Env} {t : Threaded} (h : ThreadedReach env t) (later : List TOp)
    (hw : ∀ op ∈ later, TOp.wellFormed env op) :
    (∀ x ∈ t.arena.release, x ∈ (t.run env later).arena.release) ∧
    ((t.run env later).arena.release.map (·.id)).Nodup := by
  constructor
  · intro x hx
    simp only [LArena.release, List.mem_map] at hx ⊢
    obtain ⟨b, hb, rfl⟩ := hx
    obtain ⟨b', hb', e⟩ := Threaded.run_keeps_blocks env t later b hb
    exact ⟨b', hb', e⟩
  · exact LArena.release_ids_nodup (Threaded.run_inv_keeps (threaded_reach_inv h) later hw).1.wf

/-- The views take the arena over as it is: the blocks released when the last view goes are those of the
interner it came from. -/
theorem views_release_their_sources_blocks (env : Env) (r : Rodeo) (t : Threaded) :
    r.intoReader.arena.release = r.arena.release ∧ r.intoResolver.arena.release = r.arena.release ∧
    r.intoReader.intoResolver.arena.release = r.arena.release ∧
    (∀ rd, t.intoReader env = .ok rd → rd.arena.release = t.arena.release) ∧
    (∀ rs, t.intoResolver = .ok rs → rs.arena.release = t.arena.release) := by
  refine ⟨rfl, rfl, rfl, ?_, ?_⟩
  · intro rd h
    unfold Threaded.intoReader at h
    repeat' split at h
    all_goals first
      | (simp at h; done)
      | (simp only [Out.ok.injEq] at h; subst h; rfl)
  · intro rs h
    unfold Threaded.intoResolver at h
    repeat' split at h
    all_goals first
      | (simp at h; done)
      | (simp only [Out.ok.injEq] at h; subst h; rfl)

/-- Non-vacuity: a grown arena, three blocks, all of them released. -/
example : (match (Arena.new 2 100).store [1, 2, 3] with
    | .ok (a, _) => a.release.map (·.cap)
    | _ => []) = [2, 4] := by decide

/-- The code this file's theorems are about is the same under every feature configuration: the regenerated
census of conditional compilation contains import blocks, whole serde impls, optional-dependency impls and
module declarations only, and no gate inside any function body (`Lemmas/Config.lean`). -/
theorem same_code_under_every_feature_configuration :
    (Extracted.cfgGates.all fun g => g.kind != .other) = true ∧ Extracted.bodyGates.isEmpty = true :=
  Lasso.one_code_base_for_all_configurations

end Lasso.C04
