import LassoProofs.C02
import LassoModel.Wrap
import LassoModel.Extracted
import LassoProofs.Lemmas.Config
/-
  C17 — trait, reference, boxed and collection-trait access equal the inherent methods.

  The meaning of a call through a wrapper route is *defined* by following the forwarding table that
  the extractor regenerates from `interface/*.rs` (`Wrap.resolveMethod`); the driver executes the
  inherent operation the route resolves to.  So "wrapped run = inherent run, same results and same
  state" holds for every history exactly when every route resolves every method to the inherent
  method of the same name — which is the kernel-decided statement below.
-/
namespace Lasso.C17
open Lasso Lasso.C02 Lasso.Source

def internerMethods : List Method := [.getOrIntern, .tryGetOrIntern, .getOrInternStatic, .tryGetOrInternStatic]
def readerMethods : List Method := [.get, .contains]
def resolverMethods : List Method := [.resolve, .tryResolve, .containsKey, .len, .isEmpty]

def rodeoInternerRoutes : List (List Wrapper) :=
  [[.rodeo], [.refMut, .rodeo], [.refMut, .refMut, .rodeo], [.box, .rodeo], [.refMut, .box, .rodeo], [.box, .box, .rodeo],
   [.box, .refMut, .rodeo]]
def threadedInternerRoutes : List (List Wrapper) :=
  [[.threaded], [.threadedRef, .threaded], [.refMut, .threaded], [.refMut, .threadedRef, .threaded], [.box, .threaded],
   [.box, .threadedRef, .threaded]]
def queryRoutes (base : Wrapper) : List (List Wrapper) :=
  [[base], [.ref, base], [.ref, .ref, base], [.refMut, base], [.box, base], [.ref, .box, base], [.box, .ref, base]]

/-- Every interning method through every route reaches the inherent method of the same name. -/
theorem interner_routes_identity :
    ((rodeoInternerRoutes ++ threadedInternerRoutes).all fun route => internerMethods.all fun m =>
      Wrap.resolveMethod Extracted.forwards route m == some m) = true := by decide

/-- Every lookup / resolution method through every route (shared or exclusive reference, box, nested)
on each of the four containers reaches the inherent method of the same name. -/
theorem query_routes_identity :
    (([Wrapper.rodeo, .threaded, .reader].all fun base => (queryRoutes base).all fun route =>
        (readerMethods ++ resolverMethods).all fun m => Wrap.resolveMethod Extracted.forwards route m == some m) &&
     ((queryRoutes .resolver).all fun route => resolverMethods.all fun m =>
        Wrap.resolveMethod Extracted.forwards route m == some m)) = true := by decide

/-- `resolve_unchecked` through the traits: the inherent unchecked method for the vector containers;
for the concurrent interner (which has none) the *checked* `resolve`. -/
theorem resolve_unchecked_routes :
    (([Wrapper.rodeo, .reader, .resolver].all fun base => (queryRoutes base).all fun route =>
        Wrap.resolveMethod Extracted.forwards route .resolveUnchecked == some .resolveUnchecked) &&
     ((queryRoutes .threaded).all fun route =>
        Wrap.resolveMethod Extracted.forwards route .resolveUnchecked == some .resolve)) = true := by decide

/-- The conversions into views through the traits — on the value, on a box, on a boxed trait object
(`into_*_boxed`) — reach the inherent conversion. -/
theorem conversion_routes_identity :
    (([[Wrapper.rodeo], [.box, .rodeo], [.threaded], [.box, .threaded]].all fun route =>
        Wrap.resolveMethod Extracted.forwards route .intoReader == some .intoReader &&
        Wrap.resolveMethod Extracted.forwards route .intoResolver == some .intoResolver) &&
     ([[Wrapper.reader], [.box, .reader]].all fun route =>
        Wrap.resolveMethod Extracted.forwards route .intoResolver == some .intoResolver)) = true := by decide

/-- Hence a `via <route> <op>` line of any history denotes the very same inherent operation: the
wrapped run and the inherent run are the same run (same results, same resulting state). -/
theorem via_is_inherent (route : String) (layers : List Wrapper) (op : String) (m : Method) (args : List String)
    (hr : Wrap.parseRoute route = some layers) (ho : Wrap.opToMethod op = some m)
    (hid : Wrap.resolveMethod Extracted.forwards layers m = some m) (hback : Wrap.methodToOp m = some op) :
    Wrap.resolveVia Extracted.forwards route (op :: args) = some (op :: args) := by
  simp [Wrap.resolveVia, hr, ho, hid, hback]

/-! ### Collection traits -/

/-- `extend` is the explicit sequence of `get_or_intern` calls: when it runs to the end, the
interner is the one reached by the history that interns the items one by one, in order (with some
table-growth oracle per call, which no result depends on). -/
theorem extend_is_intern_sequence (env : Env) (r : Rodeo) (xs : List Bytes) (r' : Rodeo)
    (h : r.extend env xs = (r', true)) :
    ∃ gs : List Bool, gs.length = xs.length ∧ r' = r.run env (List.zipWith ROp.intern xs gs) := by
  induction xs generalizing r with
  | nil => simp [Rodeo.extend] at h; exact ⟨[], rfl, by simp [Rodeo.run, h]⟩
  | cons x rest ih =>
    unfold Rodeo.extend at h
    cases hs : r.tryIntern env x (growAt r.strings.length) with
    | ok p =>
      simp only [hs] at h
      obtain ⟨gs, hl, he⟩ := ih p.1 h
      refine ⟨growAt r.strings.length :: gs, by simp [hl], ?_⟩
      simp only [List.zipWith_cons_cons, Rodeo.run, List.foldl_cons, Rodeo.apply, hs]
      exact he
    | err e => simp [hs] at h
    | panic => simp [hs] at h
    | fault f => simp [hs] at h

/-- Consequently: every item ends up interned, duplicates collapse onto one key, and nothing that
was interned before changes its key. -/
theorem extend_contents {env : Env} {r r' : Rodeo} (hr : RodeoReach env r) (xs : List Bytes)
    (h : r.extend env xs = (r', true)) :
    r'.Inv env ∧ (∀ k y, r.str env k = some y → r'.str env k = some y) ∧ ∀ x ∈ xs, ∃ k, r'.str env k = some x := by
  induction xs generalizing r with
  | nil =>
    simp [Rodeo.extend] at h; subst h
    exact ⟨rodeo_reach_inv hr, fun _ _ h => h, by simp⟩
  | cons x rest ih =>
    have hi := rodeo_reach_inv hr
    unfold Rodeo.extend at h
    generalize hg : growAt r.strings.length = g at h
    have hstep : ∃ r1 k, r.tryIntern env x g = .ok (r1, k) ∧ RodeoReach env r1 ∧ r1.str env k = some x ∧
        ∀ j y, r.str env j = some y → r1.str env j = some y := by
      obtain ⟨N, cap, max, ops, hc, hw, rfl⟩ := hr
      have hreach : ∀ r1 k, ((Rodeo.new N cap max).run env ops).tryIntern env x g = .ok (r1, k) →
          RodeoReach env r1 := by
        intro r1 k he
        refine ⟨N, cap, max, ops ++ [.intern x g], hc, ?_, ?_⟩
        · intro op hop
          simp only [List.mem_append, List.mem_singleton] at hop
          rcases hop with hop | rfl
          · exact hw op hop
          · trivial
        · simp only [Rodeo.run, List.foldl_append, List.foldl_cons, List.foldl_nil, Rodeo.apply] at he ⊢
          rw [he]
      rcases Rodeo.tryIntern_spec hi x g with ⟨k, hk, he⟩ | ⟨_, ⟨_, he⟩ | ⟨_, ⟨_, he⟩ | ⟨r1, ref, he, _, hp⟩⟩⟩
      · exact ⟨_, k, he, hreach _ _ he, hk, fun _ _ h => h⟩
      · rw [he] at h; simp at h
      · rw [he] at h; simp at h
      · exact ⟨r1, _, he, hreach _ _ he, hp.newStr, hp.old⟩
    obtain ⟨r1, k, he, hr1, hk, hold⟩ := hstep
    simp only [he] at h
    obtain ⟨h1, h2, h3⟩ := ih hr1 h
    refine ⟨h1, fun j y hj => h2 j y (hold j y hj), ?_⟩
    intro y hy
    simp only [List.mem_cons] at hy
    rcases hy with rfl | hy
    · exact ⟨k, h2 k _ hk⟩
    · exact h3 y hy

/-- `from_iter` is `extend` on a fresh default-capacity interner, independent of the size hint. -/
theorem fromIter_is_extend (env : Env) (N : Nat) (xs : List Bytes) :
    Rodeo.fromIter env N xs = (Rodeo.new N 4096 18446744073709551615).extend env xs := rfl

/-! ### Tie to the source: the collection traits, statement by statement

`Extracted.*ExtendEffects` / `*FromIterEffects` are regenerated from `impl Extend` / `impl FromIterator` of both
interners.  Statements that only compute locals (the iterator, the size hint, the capacity) are `.pure` and
dropped; what remains must be exactly the model's `Rodeo.extend` / `Rodeo.fromIter` (`Threaded.*`): one
infallible `get_or_intern(item.as_ref())` per item, in order, on `self` - resp. on an interner built with the
default byte capacity, no limit and a default hasher (the hint only pre-sizes the tables), which is then returned.
An early `return`, a condition around the call, a skipped or doubled item, another constructor show up as an
unrecognised or different effect. -/
def collBody (e : List Source.CollEffect) : List Source.CollEffect := e.filter (· != .pure)

def isExtendLoop (e : List Source.CollEffect) : Bool := collBody e == [.loopBegin, .internItem, .loopEnd]

def isFromIter (e : List Source.CollEffect) : Bool :=
  collBody e == [.buildWithHint, .loopBegin, .internItem, .loopEnd, .returnBuilt] ||
  collBody e == [.buildDefault, .loopBegin, .internItem, .loopEnd, .returnBuilt]

theorem collection_traits_follow_model :
    isExtendLoop Extracted.rodeoExtendEffects = true ∧ isExtendLoop Extracted.threadedExtendEffects = true ∧
    isFromIter Extracted.rodeoFromIterEffects = true ∧ isFromIter Extracted.threadedFromIterEffects = true := by
  decide

/-- Indexing by key is the checked `resolve`, including the panic on an unknown key (the driver runs
the same model function for both; on the real code `Index::index` forwards to `resolve`). -/
theorem index_is_resolve (env : Env) (r : Rodeo) (k : Nat) (hk : r.strings.length ≤ k) :
    r.resolve env k = .panic := (Rodeo.unknown_key env r k hk).1

/-- The code this file's theorems are about is the same under every feature configuration: the regenerated
census of conditional compilation contains import blocks, whole serde impls, optional-dependency impls and
module declarations only, and no gate inside any function body (`Lemmas/Config.lean`). -/
theorem same_code_under_every_feature_configuration :
    (Extracted.cfgGates.all fun g => g.kind != .other) = true ∧ Extracted.bodyGates.isEmpty = true :=
  Lasso.one_code_base_for_all_configurations

end Lasso.C17
