import LassoProofs.Lemmas.Clone
import LassoProofs.C02
import LassoModel.Extracted
import LassoProofs.Lemmas.Config
import LassoProofs.Lemmas.CloneInterp
/-
  C12 — a clone is equal in content and completely independent of its source.

  In the model an interner is a value that owns its arena; `try_clone` builds a *new* arena value and
  re-stores every string into it (as the source code does), so the clone shares nothing with its
  source by construction.  That the real clone shares no memory is what the block audit of the
  correspondence run checks (every string of the clone lies in a block of the clone).
-/
namespace Lasso.C12
set_option linter.unnecessarySimpa false
open Lasso Lasso.C02

/-- Cloning (fallibly or infallibly) any reachable interner succeeds — also under a memory limit,
because the clone's arena is sized to hold every string in its first block — and the clone has the
same count, the same string under every key and the same string-to-key answers. -/
theorem clone_eq {env : Env} {r : Rodeo} (h : RodeoReach env r) (g : Bool) :
    ∃ c, r.tryClone env g = .ok c ∧ Rodeo.expectOk (r.tryClone env g) = .ok c ∧ c.Inv env ∧ c.len = r.len ∧
      (∀ k, c.str env k = r.str env k) ∧ (∀ x, c.get env x = r.get env x) := by
  have hi := rodeo_reach_inv h
  obtain ⟨c, h1, h2, _, h4, h5⟩ := Rodeo.tryClone_total hi g
  refine ⟨c, h1, by simp [h1, Rodeo.expectOk], h2, h4, h5, ?_⟩
  intro x
  obtain ⟨o1, e1, s1⟩ := Rodeo.get_spec h2 x
  obtain ⟨o2, e2, s2⟩ := Rodeo.get_spec hi x
  rw [e1, e2]
  congr 1
  cases o1 with
  | none =>
    cases o2 with
    | none => rfl
    | some k => have := (s2 k).mp rfl; rw [← h5 k] at this; have := (s1 k).mpr this; simp at this
  | some k =>
    have := (s1 k).mp rfl
    rw [h5 k] at this
    exact ((s2 k).mpr this).symm

/-- Everything the clone holds lives in the clone's own arena (or is the empty literal): no static
reference and no location of the source survives. -/
theorem clone_owns {env : Env} {r c : Rodeo} (h : RodeoReach env r) (g : Bool) (hc : r.tryClone env g = .ok c) :
    ∀ loc, StrRef.arena loc ∈ c.strings → c.arena.valid loc := by
  obtain ⟨c', h1, _, h2, _⟩ := clone_eq h g
  rw [hc] at h1; injection h1 with h1; subst h1
  intro loc hm; exact (h2.valid loc hm).1

/-- The target of a clone-into keeps nothing of its previous content: on success it holds exactly
the source's key->string pairs, under its own limit; the only possible failure is that limit. -/
theorem cloneFrom_fresh {env : Env} {target source : Rodeo} (ht : RodeoReach env target) (hs : RodeoReach env source)
    (hN : target.N = source.N) (g : Bool) :
    (∃ r', Rodeo.tryCloneFrom env target source g = .ok r' ∧ r'.Inv env ∧ r'.len = source.len ∧
        (∀ k, r'.str env k = source.str env k) ∧ r'.arena.max = target.arena.max) ∨
    Rodeo.tryCloneFrom env target source g = .err .memoryLimit := by
  rcases Rodeo.tryCloneFrom_spec (rodeo_reach_inv ht) (rodeo_reach_inv hs) hN g with ⟨r', h1, h2, _, h4, h5, h6⟩ | he
  · exact Or.inl ⟨r', h1, h2, h4, h5, h6⟩
  · exact Or.inr he

/-! ### Independence: any interleaving of two histories equals the two histories run alone -/

inductive Side where
  | source | clone
  deriving DecidableEq

def applyPair (env : Env) (w : Rodeo × Rodeo) (op : Side × ROp) : Rodeo × Rodeo :=
  match op.1 with
  | .source => (w.1.apply env op.2, w.2)
  | .clone => (w.1, w.2.apply env op.2)

def runPair (env : Env) (w : Rodeo × Rodeo) (ops : List (Side × ROp)) : Rodeo × Rodeo :=
  ops.foldl (applyPair env) w

def project (s : Side) (ops : List (Side × ROp)) : List ROp :=
  (ops.filter (fun o => o.1 == s)).map (·.2)

/-- Interning into, clearing or (not) using either one never changes the other: the state of each
after any interleaving is its state after its own operations alone, in their own order. -/
theorem frame (env : Env) (w : Rodeo × Rodeo) (ops : List (Side × ROp)) :
    runPair env w ops = (w.1.run env (project .source ops), w.2.run env (project .clone ops)) := by
  induction ops generalizing w with
  | nil => rfl
  | cons op rest ih =>
    simp only [runPair, List.foldl_cons]
    have := ih (applyPair env w op)
    simp only [runPair] at this
    rw [this]
    obtain ⟨s, o⟩ := op
    cases s <;> simp [applyPair, project, Rodeo.run]

/-- Hence the clone keeps answering as the source did at clone time, whatever is done to the source
afterwards (including clearing it — dropping it is not even an operation on the clone). -/
theorem clone_unaffected_by_source {env : Env} {r c : Rodeo} (srcOps : List ROp) (k : Nat) :
    (runPair env (r, c) (srcOps.map (fun o => (Side.source, o)))).2.str env k = c.str env k := by
  rw [frame]
  have : project .clone (srcOps.map (fun o => (Side.source, o))) = [] := by
    induction srcOps with
    | nil => rfl
    | cons o rest ih => simpa [project] using ih
  simp [this, Rodeo.run]

/-! ### Non-vacuity -/
example : (match (Rodeo.new 255 2 1000).tryIntern C02.constEnv [1, 2, 3] true with
    | .ok (r, _) => (match r.tryClone C02.constEnv true with
      | .ok c => decide (c.len = 1 ∧ c.arena.usage = 3) && (c.str C02.constEnv 0 == some [1, 2, 3])
      | _ => false)
    | _ => false) = true := by decide

/-! ### Tie to the source: cloning as effect sequences

`Rodeo.tryClone` / `tryCloneFrom` (`LassoModel/Views.lean`) mirror `try_clone`, `try_clone_from` and their
shared helper `clone_strings_into`.  The extractor regenerates their effects in evaluation order: the new
arena is sized to the total length of the source's strings and limited by `max(source limit, that total)`;
vector and table are pre-sized with the source's count; the hasher is cloned; `clone_from` first clears the
target, takes over the source's hasher and reserves; the copy loop stores, pushes, hashes, probes, checks the key
of the entry's position and inserts; nothing returns early. -/
theorem clone_follows_model :
    Extracted.tryCloneEffects =
      [.sumLengths, .arenaSizedToContent, .propagate, .presizeExact, .presizeExact, .cloneHasher, .copyAll, .propagate] ∧
    Extracted.tryCloneFromEffects =
      [.clearTarget, .takeHasher, .reserve, .propagate, .reserve, .propagate, .copyAll, .propagate] ∧
    Extracted.cloneCopyEffects =
      [.loopBegin, .store, .propagate, .stringsPush, .hashOne, .probe, .keyCheck .loopIndex, .reject, .tableInsert,
       .loopEnd] := by
  decide

/-- Stronger than comparing sequences: the copy loop's regenerated effect sequence is given a semantics
(`LassoModel/CloneInterp.lean`) and running it is the model's `Rodeo.cloneInto`, for every source list, start
index, table, vector, arena and growth oracle: store and propagate a failure, push, hash, probe (an occupied
entry is the `unreachable!`), key check on the position and the key-space error, insert. -/
theorem clone_loop_runs_the_source (env : Env) (N : Nat) (grow : Bool) (src : List Bytes) (idx : Nat) (t : Table)
    (ss : List StrRef) (a : Arena) :
    interpCloneInto env N grow Extracted.cloneCopyEffects src idx t ss a = Rodeo.cloneInto env N grow src idx t ss a :=
  interp_clone_is_model env N grow src idx t ss a

/-- ... and so are `try_clone` and `try_clone_from` as wholes: the total length (the default capacity when it is
0), the arena sized to it under `max(source limit, total)`, resp. the cleared target; then the copy loop; a failure
of the loop is propagated.  Running the regenerated sequences equals `Rodeo.tryClone` / `Rodeo.tryCloneFrom` for
every source, target and growth oracle. -/
theorem clone_runs_the_source (env : Env) (grow : Bool) :
    (∀ r : Rodeo, interpTryClone env Extracted.tryCloneEffects Extracted.cloneCopyEffects r grow = r.tryClone env grow) ∧
    (∀ target source : Rodeo, interpTryCloneFrom env Extracted.tryCloneFromEffects Extracted.cloneCopyEffects target source grow =
      Rodeo.tryCloneFrom env target source grow) :=
  ⟨fun r => interp_tryClone_is_model env r grow, fun t s => interp_tryCloneFrom_is_model env t s grow⟩

/-- The code this file's theorems are about is the same under every feature configuration: the regenerated
census of conditional compilation contains import blocks, whole serde impls, optional-dependency impls and
module declarations only, and no gate inside any function body (`Lemmas/Config.lean`). -/
theorem same_code_under_every_feature_configuration :
    (Extracted.cfgGates.all fun g => g.kind != .other) = true ∧ Extracted.bodyGates.isEmpty = true :=
  Lasso.one_code_base_for_all_configurations

end Lasso.C12
