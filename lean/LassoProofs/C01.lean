import LassoProofs.Lemmas.Paths
import LassoProofs.Lemmas.Grow
import LassoProofs.Lemmas.THistory
import LassoProofs.Lemmas.Config
/-
  C01 — round-trip fidelity: a key always resolves to the exact string it was minted for.

  Quantified over: every hash function and static pool (`env`), every key capacity `N`, every initial
  byte capacity `cap ≥ 1`, every memory limit, every history before the mint (`pre`), every string,
  every table-growth oracle, every later history without `clear` (`post`).  `Index::index` is
  `resolve` (the driver runs the same function for both).
-/
namespace Lasso.C01
open Lasso

/-- All resolution paths of the single-threaded interner agree on `x` for key `k`. -/
def RodeoResolves (env : Env) (r : Rodeo) (k : Nat) (x : Bytes) : Prop :=
  r.resolve env k = .ok x ∧ r.tryResolve env k = .ok (some x) ∧ r.resolveUnchecked env k = .ok x ∧
  ∃ l, r.iter env = .ok l ∧ l.length = r.strings.length ∧ l[k]? = some (k, x)

/-- All resolution paths of the concurrent interner (one thread) agree on `x` for key `k`. -/
def ThreadedResolves (env : Env) (t : Threaded) (k : Nat) (x : Bytes) : Prop :=
  t.resolve env k = .ok x ∧ t.tryResolve env k = .ok (some x) ∧ t.containsKey k = true

theorem rodeo_roundtrip (env : Env) (N cap max : Nat) (hcap : 0 < cap)
    (pre : List ROp) (hpre : ∀ op ∈ pre, op.wellFormed env)
    (x : Bytes) (g : Bool) (r1 : Rodeo) (k : Nat)
    (hmint : ((Rodeo.new N cap max).run env pre).tryIntern env x g = .ok (r1, k))
    (post : List ROp) (hpost : ∀ op ∈ post, op.wellFormed env) (hnc : ∀ op ∈ post, op.isClear = false) :
    RodeoResolves env (r1.run env post) k x := by
  have h0 := Rodeo.run_inv (Rodeo.new_inv env N cap max hcap) pre hpre
  have ⟨h1, hk⟩ : r1.Inv env ∧ r1.str env k = some x := by
    rcases Rodeo.tryIntern_spec h0 x g with ⟨k', hk', he⟩ | ⟨_, ⟨_, he⟩ | ⟨_, ⟨_, he⟩ | ⟨r', ref, he, _, hp⟩⟩⟩
    · rw [he] at hmint; injection hmint with hm; injection hm with a b; subst a b; exact ⟨h0, hk'⟩
    · rw [he] at hmint; simp at hmint
    · rw [he] at hmint; simp at hmint
    · rw [he] at hmint; injection hmint with hm; injection hm with a b; subst a b; exact ⟨hp.inv, hp.newStr⟩
  have h2 := Rodeo.run_inv h1 post hpost
  exact Rodeo.paths h2 k x (Rodeo.run_keeps h1 post hpost hnc k x hk)

theorem rodeo_roundtrip_static (env : Env) (N cap max : Nat) (hcap : 0 < cap)
    (pre : List ROp) (hpre : ∀ op ∈ pre, op.wellFormed env)
    (i : Nat) (x : Bytes) (hi : env.pool[i]? = some x) (g : Bool) (r1 : Rodeo) (k : Nat)
    (hmint : ((Rodeo.new N cap max).run env pre).tryInternStatic env i g = .ok (r1, k))
    (post : List ROp) (hpost : ∀ op ∈ post, op.wellFormed env) (hnc : ∀ op ∈ post, op.isClear = false) :
    RodeoResolves env (r1.run env post) k x := by
  have h0 := Rodeo.run_inv (Rodeo.new_inv env N cap max hcap) pre hpre
  have ⟨h1, hk⟩ : r1.Inv env ∧ r1.str env k = some x := by
    rcases Rodeo.tryInternStatic_spec h0 i x hi g with ⟨k', hk', he⟩ | ⟨_, ⟨_, he⟩ | ⟨_, r', he, _, hp⟩⟩
    · rw [he] at hmint; injection hmint with hm; injection hm with a b; subst a b; exact ⟨h0, hk'⟩
    · rw [he] at hmint; simp at hmint
    · rw [he] at hmint; injection hmint with hm; injection hm with a b; subst a b; exact ⟨hp.inv, hp.newStr⟩
  have h2 := Rodeo.run_inv h1 post hpost
  exact Rodeo.paths h2 k x (Rodeo.run_keeps h1 post hpost hnc k x hk)

theorem threaded_roundtrip (env : Env) (N cap max : Nat) (hcap : 0 < cap)
    (pre : List TOp) (hpre : ∀ op ∈ pre, op.wellFormed env)
    (x : Bytes) (t1 : Threaded) (k : Nat)
    (hmint : ((Threaded.new N cap max).run env pre).tryIntern env x = (t1, .ok k))
    (post : List TOp) (hpost : ∀ op ∈ post, op.wellFormed env) :
    ThreadedResolves env (t1.run env post) k x := by
  have h0 := (Threaded.run_inv_keeps (Threaded.new_inv env N cap max hcap) pre hpre).1
  have ⟨h1, hk⟩ : t1.Inv env ∧ t1.str env k = some x := by
    rcases Threaded.tryIntern_spec h0 x with ⟨k', hk', he⟩ | ⟨_, ⟨_, he⟩ | ⟨a', ref, _, ⟨_, he, _, _⟩ | ⟨_, he, hp⟩⟩⟩
    · rw [he] at hmint; injection hmint with a b; injection b with b; subst a b; exact ⟨h0, hk'⟩
    · rw [he] at hmint; injection hmint with a b; simp at b
    · rw [he] at hmint; injection hmint with a b; simp at b
    · rw [he] at hmint; injection hmint with a b; injection b with b; subst a b; exact ⟨hp.inv, hp.newStr⟩
  exact Threaded.paths k x ((Threaded.run_inv_keeps h1 post hpost).2 k x hk)

theorem threaded_roundtrip_static (env : Env) (N cap max : Nat) (hcap : 0 < cap)
    (pre : List TOp) (hpre : ∀ op ∈ pre, op.wellFormed env)
    (i : Nat) (x : Bytes) (hi : env.pool[i]? = some x) (t1 : Threaded) (k : Nat)
    (hmint : ((Threaded.new N cap max).run env pre).tryInternStatic env i = (t1, .ok k))
    (post : List TOp) (hpost : ∀ op ∈ post, op.wellFormed env) :
    ThreadedResolves env (t1.run env post) k x := by
  have h0 := (Threaded.run_inv_keeps (Threaded.new_inv env N cap max hcap) pre hpre).1
  have ⟨h1, hk⟩ : t1.Inv env ∧ t1.str env k = some x := by
    rcases Threaded.tryInternStatic_spec h0 i x hi with ⟨k', hk', he⟩ | ⟨_, ⟨_, he, _, _⟩ | ⟨_, he, hp⟩⟩
    · rw [he] at hmint; injection hmint with a b; injection b with b; subst a b; exact ⟨h0, hk'⟩
    · rw [he] at hmint; injection hmint with a b; simp at b
    · rw [he] at hmint; injection hmint with a b; injection b with b; subst a b; exact ⟨hp.inv, hp.newStr⟩
  exact Threaded.paths k x ((Threaded.run_inv_keeps h1 post hpost).2 k x hk)

/-- No reachable state makes any resolution path fault (read outside the arena, dangling reference). -/
theorem rodeo_paths_never_fault (env : Env) (N cap max : Nat) (hcap : 0 < cap)
    (ops : List ROp) (hops : ∀ op ∈ ops, op.wellFormed env) (k : Nat) (f : Fault)
    (r : Rodeo) (hr : r = (Rodeo.new N cap max).run env ops) :
    r.resolve env k ≠ .fault f ∧ r.tryResolve env k ≠ .fault f ∧ r.iter env ≠ .fault f := by
  have h := Rodeo.run_inv (Rodeo.new_inv env N cap max hcap) ops hops
  rw [← hr] at h
  by_cases hk : k < r.strings.length
  · obtain ⟨y, hy⟩ := h.str_total k hk
    obtain ⟨a, b, _, l, d, _⟩ := Rodeo.paths h k y hy
    simp [a, b, d]
  · obtain ⟨a, b, _⟩ := Rodeo.unknown_key env r k (by omega)
    refine ⟨by simp [a], by simp [b], ?_⟩
    obtain ⟨l, h1, _, _⟩ := iterIn_spec env r.arena.read r.N r.strings 0 (by have := h.lenLe; omega)
      (fun ref hr => h.content_some ref hr)
    simp [Rodeo.iter, h1]

/-! ### Non-vacuity: a concrete history meets the hypotheses -/

def exEnv : Env := { hash := fun _ => 0, pool := [[104, 105]] }

def okKey : Out (Rodeo × Nat) → Option Nat
  | .ok (_, k) => some k
  | _ => none

example : okKey (((Rodeo.new 255 1 1000).run exEnv [.intern [1, 2, 3] true, .internStatic 0 false]).tryIntern exEnv [9, 9] true)
    = some 2 := by decide

/-! ### Tie to the source: the growth logic of both arenas is regenerated from `store_str`

`Extracted.arenaGrow` / `Extracted.lockfreeGrow` are the decision trees the extractor translates from
the statements of `store_str` after the search for a block with room (conditions, amount claimed from
the budget, block size and how it is built, stored capacity, placement).  For every arena state and
every string the model does exactly what the tree says. -/
theorem growth_logic_is_source :
    (∀ (a : Arena) (s : Bytes), s.length ≠ 0 → ¬ s.length ≤ a.cur.free →
      (Grow.eval (a.env s) Extracted.arenaGrow).map (a.applyOutcome s) = some (a.store s)) ∧
    (∀ (a : LArena) (s : Bytes),
      (Grow.eval (a.env s) Extracted.lockfreeGrow).map (a.applyOutcome s) = some (a.grow s)) ∧
    Extracted.arenaAllocateIsCheckThenAdd = true :=
  ⟨arena_store_is_source_tree, larena_grow_is_source_tree, arena_allocate_shape⟩

/-- The code this file's theorems are about is the same under every feature configuration: the regenerated
census of conditional compilation contains import blocks, whole serde impls, optional-dependency impls and
module declarations only, and no gate inside any function body (`Lemmas/Config.lean`). -/
theorem same_code_under_every_feature_configuration :
    (Extracted.cfgGates.all fun g => g.kind != .other) = true ∧ Extracted.bodyGates.isEmpty = true :=
  Lasso.one_code_base_for_all_configurations

end Lasso.C01
