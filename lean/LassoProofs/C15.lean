import LassoProofs.Lemmas.SerdeT
import LassoProofs.C06
import LassoModel.Extracted
import LassoProofs.Lemmas.Config
import LassoProofs.Lemmas.DeserInterp
/-
  C15 — deserialising arbitrary documents is safe: a consistent object or an error.

  Documents are modelled at serde's data-model level: any list of strings (any repetitions), any list
  of `(string, raw key)` entries in textual order (repeated strings — the last one wins, as in
  `HashMap::deserialize` — repeated keys, gaps, zero, values beyond the key range).  The JSON text
  layer is serde_json's and is exercised by the correspondence run only.
-/
namespace Lasso.C15
open Lasso

/-- `Rodeo` / `RodeoReader` from *any* list: an error, or an object satisfying the full interner
invariant — so every lookup is exact, every key it reports resolves to one string, and no safe call
on it can fault (see the consequences below).  Accepted exactly when the strings are pairwise
distinct and within the key capacity. -/
theorem rodeo_total (env : Env) (N : Nat) (doc : List Bytes) :
    (∃ r, deRodeo env N doc = .ok r ∧ r.Inv env ∧ doc.Nodup ∧ doc.length ≤ N ∧ ∀ j, r.str env j = doc[j]?) ∨
    (deRodeo env N doc = .err .serde ∧ ¬ (doc.Nodup ∧ doc.length ≤ N)) := by
  rcases deRodeo_spec env N doc with ⟨r, h1, h2, _, _, h5, h6, h7⟩ | h
  · exact Or.inl ⟨r, h1, h2, h6, h7, h5⟩
  · exact Or.inr h

theorem reader_total (env : Env) (N : Nat) (doc : List Bytes) :
    (∃ rd, deReader env N doc = .ok rd ∧ rd.Good env ∧ ∀ j, rd.str env j = doc[j]?) ∨
    deReader env N doc = .err .serde := by
  unfold deReader
  rcases deRodeo_spec env N doc with ⟨r, h1, h2, _, _, h5, _, _⟩ | ⟨h, _⟩
  · left; simp only [h1]; exact ⟨_, rfl, Rodeo.intoReader_good h2, h5⟩
  · right; simp only [h]

theorem resolver_total (env : Env) (N : Nat) (doc : List Bytes) :
    (∃ rs, deResolver N doc = .ok rs ∧ rs.Good env ∧ rs.strings.length = doc.length ∧
        ∀ j, j < doc.length → rs.str env j = doc[j]?) ∨
    (deResolver N doc = .err .serde ∧ N < doc.length) := by
  rcases deResolver_spec env N doc with ⟨rs, h1, h2, _, h4, h5, _⟩ | h
  · exact Or.inl ⟨rs, h1, h2, h4, h5⟩
  · exact Or.inr h

/-- `ThreadedRodeo` from *any* map document: an error, or an object satisfying the full invariant of
the concurrent interner (keys dense and unique, both maps mutually consistent, counter past every
key). -/
theorem threaded_total (env : Env) (N : Nat) (doc : List (Bytes × Nat)) :
    deThreaded N doc = .err .serde ∨ ∃ t, deThreaded N doc = .ok t ∧ t.Inv env := by
  rcases deThreaded_spec env N doc with h | ⟨t, h1, h2, _⟩
  · exact Or.inl h
  · exact Or.inr ⟨t, h1, h2⟩

/-! ### What the invariants buy: every safe call on an accepted object is well-defined and consistent -/

/-- Each string the object contains is found under a key that resolves back to it, and each key it
reports resolves to one string; no lookup or resolution path faults. -/
theorem rodeo_consistent {env : Env} {r : Rodeo} (h : r.Inv env) (k : Nat) (x : Bytes) (f : Fault) :
    (r.str env k = some x → r.get env x = .ok (some k) ∧ r.resolve env k = .ok x ∧ r.tryResolve env k = .ok (some x)) ∧
    r.get env x ≠ .fault f ∧ r.iter env ≠ .fault f := by
  obtain ⟨o, ho, hs⟩ := Rodeo.get_spec h x
  refine ⟨?_, by simp [ho], ?_⟩
  · intro hk
    obtain ⟨a, b, _⟩ := Rodeo.paths h k x hk
    have : o = some k := (hs k).mpr hk
    exact ⟨by rw [ho, this], a, b⟩
  · obtain ⟨l, h1, _, _⟩ := iterIn_spec env r.arena.read r.N r.strings 0 (by have := h.lenLe; omega)
      (fun ref hr => h.content_some ref hr)
    simp [Rodeo.iter, h1]

/-- Interning into an accepted `Rodeo` keeps working: never a fault (see also C14). -/
theorem rodeo_usable {env : Env} {r : Rodeo} (h : r.Inv env) (x : Bytes) (g : Bool) (f : Fault) :
    r.tryIntern env x g ≠ .fault f ∧ r.tryIntern env x g ≠ .panic := by
  rcases Rodeo.tryIntern_spec h x g with ⟨_, _, he⟩ | ⟨_, ⟨_, he⟩ | ⟨_, ⟨_, he⟩ | ⟨_, _, he, _, _⟩⟩⟩ <;>
    rw [he] <;> simp

/-- An accepted `ThreadedRodeo`: lookups are exact, and the conversions to views do not fault (this is
the statement that was false before the repair for D4). -/
theorem threaded_consistent {env : Env} {t : Threaded} (h : t.Inv env) (k : Nat) (x : Bytes) :
    (t.get env x = some k ↔ t.str env k = some x) ∧ (∃ rs, t.intoResolver = .ok rs) ∧ (∃ rd, t.intoReader env = .ok rd) := by
  obtain ⟨rs, h1, _⟩ := Threaded.intoResolver_spec h
  obtain ⟨rd, h2, _⟩ := Threaded.intoReader_spec h
  exact ⟨Threaded.get_spec h x k, ⟨rs, h1⟩, ⟨rd, h2⟩⟩

/-- An accepted resolver: every key below the count resolves, iteration does not reach
`unreachable!()` (false before the repair for D8). -/
theorem resolver_consistent {env : Env} {rs : Resolver} (h : rs.Good env) (f : Fault) : rs.iter env ≠ .fault f := by
  have hc : ∀ ref ∈ rs.strings, ∃ y, contentOf env rs.arena.read ref = some y := by
    intro ref hr
    obtain ⟨k, hk, hek⟩ := List.getElem_of_mem hr
    obtain ⟨y, hy⟩ := h.total k hk
    refine ⟨y, ?_⟩
    simp only [Resolver.str, strAt, List.getElem?_eq_getElem hk, hek] at hy
    exact hy
  obtain ⟨l, h1, _, _⟩ := iterIn_spec env rs.arena.read rs.N rs.strings 0 (by have := h.lenLe; omega) hc
  simp [Resolver.iter, h1]

/-! ### The counter-documents of the unrepaired code (D3, D4, D7, D8), now refused -/

def cEnv : Env := { hash := fun _ => 1, pool := [] }

/-- D3: `["a","a","b"]`. -/
example : (match deRodeo cEnv 255 [[97], [97], [98]] with | .err .serde => true | _ => false) = true := by decide
/-- D4: `{"a": 6}` and `{"a": 1, "b": 1}`. -/
example : (match deThreaded 255 [([97], 6)] with | .err .serde => true | _ => false) = true := by decide
example : (match deThreaded 255 [([97], 1), ([98], 1)] with | .err .serde => true | _ => false) = true := by decide
/-- D7 / D8: more strings than the key type can index (capacity 2, three strings). -/
example : (match deRodeo cEnv 2 [[1], [2], [3]] with | .err .serde => true | _ => false) = true := by decide
example : (match deResolver 2 [[1], [2], [3]] with | .err .serde => true | _ => false) = true := by decide
/-- A well-formed document is accepted. -/
example : (match deThreaded 255 [([98], 2), ([97], 1)] with | .ok t => t.ctr == 2 | _ => false) = true := by decide

/-! ### Tie to the source: the deserialisers as effect sequences

`LassoModel/Serde.lean` mirrors the four `Deserialize` impls statement by statement.  The extractor
regenerates, in evaluation order, what each of them reads, how it pre-sizes its containers (exactly the number
of entries: the tables never grow while a document is read), that the arena is unlimited, and inside the
loop: store (`expect`), hash, probe, the rejection of a repeated string, the key check *applied to the position
of the entry* and its rejection, the push and the table insert; for the resolver the check of the last
position up front; for the concurrent interner the running maximum of the keys, the two map inserts and the
final validation (unique strings, dense keys) with its rejection.  These are the sequences the model's
`deListLoop`, `deResolver` and `deThreadedLoop`/`deThreaded` follow. -/
theorem deserialisers_follow_model :
    Extracted.deRodeoEffects =
      [.readList, .presizeExact, .presizeExact, .arenaUnlimited, .loopBegin, .store, .expectStored, .hashOne, .probe,
       .reject, .keyCheck .loopIndex, .reject, .stringsPush, .tableInsert, .loopEnd] ∧
    Extracted.deReaderEffects = Extracted.deRodeoEffects ∧
    Extracted.deResolverEffects =
      [.readList, .keyCheck .lenMinusOne, .reject, .presizeExact, .arenaUnlimited, .loopBegin, .store, .expectStored,
       .stringsPush, .loopEnd] ∧
    Extracted.deThreadedEffects =
      [.readMap, .presizeExact, .presizeExact, .arenaUnlimited, .loopBegin, .counterMax, .store, .expectStored,
       .mapInsert, .stringsInsert, .loopEnd, .finalCheck, .reject] := by
  decide

/-- Stronger than comparing sequences: the regenerated effect sequences are given a semantics
(`LassoModel/DeserInterp.lean`: every effect acts on the registers of one loop iteration - the arena, the vector,
the table, the result of the last check) and *running* them is proved to be the model's loops, for every
document and every starting state: `Rodeo` / `RodeoReader` (store, expect, hash, probe, reject a repeat, key check
on the position, reject, push, insert without growth because both containers were pre-sized exactly),
`RodeoResolver` (store, expect, push; before the loop the check of the last position), `ThreadedRodeo` (running
maximum of the keys, store, expect, the two inserts; after the loop the final validation).  A check that is not
followed by its rejection, a push before the check, a missing `expect`, a table that may grow - each changes what
the sequence computes, and this theorem no longer holds. -/
theorem deserialisers_run_the_source (env : Env) (N : Nat) :
    (∀ doc idx t ss a, interpListLoop env N Extracted.deRodeoEffects doc idx t ss a = deListLoop env N doc idx t ss a) ∧
    (∀ doc idx t ss a, interpListLoop env N Extracted.deReaderEffects doc idx t ss a = deListLoop env N doc idx t ss a) ∧
    (∀ doc ss a, interpResolverLoop Extracted.deResolverEffects doc ss a = deResolverLoop doc ss a) ∧
    (∀ n, resolverPrecheck N Extracted.deResolverEffects n = some (decide (n ≠ 0 ∧ (keyOfIndex N (n - 1)).isNone))) ∧
    (∀ doc t, interpThreadedLoop Extracted.deThreadedEffects doc t = deThreadedLoop doc t) ∧
    threadedPostcheck Extracted.deThreadedEffects = true :=
  ⟨fun doc idx t ss a => interp_deRodeo_is_model env N doc idx t ss a,
   fun doc idx t ss a => interp_deReader_is_model env N doc idx t ss a (by decide),
   fun doc ss a => interp_deResolver_is_model doc ss a,
   fun n => deResolver_precheck N n,
   fun doc t => interp_deThreaded_is_model doc t,
   deThreaded_postcheck⟩

/-- The code this file's theorems are about is the same under every feature configuration: the regenerated
census of conditional compilation contains import blocks, whole serde impls, optional-dependency impls and
module declarations only, and no gate inside any function body (`Lemmas/Config.lean`). -/
theorem same_code_under_every_feature_configuration :
    (Extracted.cfgGates.all fun g => g.kind != .other) = true ∧ Extracted.bodyGates.isEmpty = true :=
  Lasso.one_code_base_for_all_configurations

end Lasso.C15
