import LassoProofs.C02
import LassoModel.Extracted
import LassoProofs.Lemmas.Config
import LassoProofs.Lemmas.InternInterp
/-
  C07 — failed interning changes nothing; exhaustion is reported exactly at capacity.

  In the model a failing `Rodeo` call returns an error *instead of* a new state (`Out.err` carries
  none): that the real code has mutated nothing at its early returns is what the correspondence run
  checks after every failure (full state sweep + block audit).  What is proved here: which error is
  reported in exactly which states, that the infallible variants panic in exactly those, that exactly
  `N` distinct strings are admitted, and — for the concurrent interner, whose failing call *does*
  return a changed state (counter and arena have moved) — that both maps and every lookup answer are
  unchanged.
-/
namespace Lasso.C07
open Lasso Lasso.C02

/-- Exact characterisation of every outcome of `try_get_or_intern` on a reachable interner. -/
theorem rodeo_outcome {env : Env} {r : Rodeo} (h : RodeoReach env r) (x : Bytes) (g : Bool) :
    (∃ k, r.str env k = some x ∧ r.tryIntern env x g = .ok (r, k)) ∨
    ((∀ k, r.str env k ≠ some x) ∧
      ((r.strings.length = r.N ∧ r.tryIntern env x g = .err .keySpace) ∨
       (r.strings.length < r.N ∧ x.length ≠ 0 ∧ r.arena.cur.free < x.length ∧ r.arena.usage + x.length > r.arena.max ∧
          r.tryIntern env x g = .err .memoryLimit) ∨
       (r.strings.length < r.N ∧ ∃ r', r.tryIntern env x g = .ok (r', r.strings.length) ∧
          r'.strings.length = r.strings.length + 1))) := by
  rcases Rodeo.tryIntern_spec (rodeo_reach_inv h) x g with hp | ⟨hn, hk | ⟨hlt, ⟨hs, he⟩ | ⟨r', ref, he, _, hp⟩⟩⟩
  · exact Or.inl hp
  · exact Or.inr ⟨hn, Or.inl hk⟩
  · obtain ⟨_, h0, h1, h2⟩ := Arena.store_err hs
    exact Or.inr ⟨hn, Or.inr (Or.inl ⟨hlt, h0, h1, h2, he⟩)⟩
  · exact Or.inr ⟨hn, Or.inr (Or.inr ⟨hlt, r', he, by rw [hp.strings]; simp⟩)⟩

/-- The key-space error is reported exactly when the string is absent and all `N` keys are in use;
never with fewer, and the `N+1`-th distinct string is never admitted. -/
theorem rodeo_keyspace_iff {env : Env} {r : Rodeo} (h : RodeoReach env r) (x : Bytes) (g : Bool) :
    r.tryIntern env x g = .err .keySpace ↔ (∀ k, r.str env k ≠ some x) ∧ r.strings.length = r.N := by
  constructor
  · intro he
    rcases rodeo_outcome h x g with ⟨k, _, hk⟩ | ⟨hn, ⟨hl, _⟩ | ⟨_, _, _, _, hm⟩ | ⟨_, r', hr, _⟩⟩
    · rw [hk] at he; simp at he
    · exact ⟨hn, hl⟩
    · rw [hm] at he; simp at he
    · rw [hr] at he; simp at he
  · rintro ⟨hn, hl⟩
    rcases rodeo_outcome h x g with ⟨k, hk, _⟩ | ⟨_, ⟨_, he⟩ | ⟨hlt, _⟩ | ⟨hlt, _⟩⟩
    · exact absurd hk (hn k)
    · exact he
    · omega
    · omega

/-- With room in the key space and in memory, a new string is admitted and gets the next key. -/
theorem rodeo_admits_below_capacity {env : Env} {r : Rodeo} (h : RodeoReach env r) (x : Bytes) (g : Bool)
    (hnew : ∀ k, r.str env k ≠ some x) (hlt : r.strings.length < r.N)
    (hmem : x.length ≤ r.arena.cur.free ∨ r.arena.usage + x.length ≤ r.arena.max) :
    ∃ r', r.tryIntern env x g = .ok (r', r.strings.length) := by
  rcases rodeo_outcome h x g with ⟨k, hk, _⟩ | ⟨_, ⟨hl, _⟩ | ⟨_, _, h1, h2, _⟩ | ⟨_, r', hr, _⟩⟩
  · exact absurd hk (hnew k)
  · omega
  · omega
  · exact ⟨r', hr⟩

/-- A key handed out for a new string was not in use: it was unknown to every safe path before. -/
theorem rodeo_new_key_fresh {env : Env} {r : Rodeo} :
    r.resolve env r.strings.length = .panic ∧ r.tryResolve env r.strings.length = .ok none ∧
    r.containsKey r.strings.length = false := by
  have := Rodeo.unknown_key env r r.strings.length (Nat.le_refl _)
  exact this

/-- The infallible variants panic in exactly the cases where the fallible ones report an error. -/
theorem infallible_panics_iff (o : Out (Rodeo × Nat)) :
    Rodeo.expectOk o = .panic ↔ (o = .panic ∨ ∃ e, o = .err e) := by
  cases o <;> simp [Rodeo.expectOk]

/-- The static entry point fails only for lack of keys (never for memory). -/
theorem rodeo_static_outcome {env : Env} {r : Rodeo} (h : RodeoReach env r) (i : Nat) (x : Bytes)
    (hp : env.pool[i]? = some x) (g : Bool) :
    (∃ k, r.str env k = some x ∧ r.tryInternStatic env i g = .ok (r, k)) ∨
    ((∀ k, r.str env k ≠ some x) ∧
      ((r.strings.length = r.N ∧ r.tryInternStatic env i g = .err .keySpace) ∨
       (r.strings.length < r.N ∧ ∃ r', r.tryInternStatic env i g = .ok (r', r.strings.length)))) := by
  rcases Rodeo.tryInternStatic_spec (rodeo_reach_inv h) i x hp g with hq | ⟨hn, hk | ⟨hlt, r', he, _⟩⟩
  · exact Or.inl hq
  · exact Or.inr ⟨hn, Or.inl hk⟩
  · exact Or.inr ⟨hn, Or.inr ⟨hlt, r', he⟩⟩

/-- Concurrent interner, one thread: a failing call leaves both maps, the count and every lookup
answer unchanged (the counter and the arena may have moved, which the property permits), and the
resulting state is again a valid interner. -/
theorem threaded_fail_atomic {env : Env} {t : Threaded} (h : ThreadedReach env t) (x : Bytes) (e : Err)
    (t' : Threaded) (he : t.tryIntern env x = (t', .err e)) :
    t'.map = t.map ∧ t'.strs = t.strs ∧ t'.Inv env ∧ (∀ k y, t.str env k = some y ↔ t'.str env k = some y) ∧
    (∀ y k, t.get env y = some k ↔ t'.get env y = some k) ∧
    ((e = .memoryLimit ∧ t' = t) ∨ (e = .keySpace ∧ t.strs.length = t.N)) := by
  have hi := threaded_reach_inv h
  rcases Threaded.tryIntern_spec hi x with ⟨k, _, hk⟩ | ⟨_, ⟨_, hm⟩ | ⟨a', ref, _, ⟨hl, hq, hi', hs⟩ | ⟨_, hq, _⟩⟩⟩
  · rw [hk] at he; injection he with a b; simp at b
  · rw [hm] at he; injection he with a b; injection b with b; subst a b
    exact ⟨rfl, rfl, hi, fun _ _ => Iff.rfl, fun _ _ => Iff.rfl, Or.inl ⟨rfl, rfl⟩⟩
  · rw [hq] at he; injection he with a b; injection b with b; subst a b
    refine ⟨rfl, rfl, hi', hs, ?_, Or.inr ⟨rfl, hl⟩⟩
    intro y k
    rw [Threaded.get_spec hi y k, Threaded.get_spec hi' y k]
    exact hs k y
  · rw [hq] at he; injection he with a b; simp at b

/-- Concurrent interner: the key-space error is reported only when all `N` keys are in use. -/
theorem threaded_keyspace_only_when_full {env : Env} {t : Threaded} (h : ThreadedReach env t) (x : Bytes)
    (t' : Threaded) (he : t.tryIntern env x = (t', .err .keySpace)) : t.strs.length = t.N := by
  rcases (threaded_fail_atomic h x .keySpace t' he).2.2.2.2.2 with ⟨h1, _⟩ | ⟨_, h2⟩
  · simp at h1
  · exact h2

/-! ### Non-vacuity: a one-key type admits exactly one string -/

example : (match (Rodeo.new 1 4 1000).tryIntern C02.constEnv [1] true with
    | .ok (r, k) => decide (k = 0) && (match r.tryIntern C02.constEnv [2] true with
        | .err .keySpace => (match r.tryIntern C02.constEnv [1] true with
          | .ok (_, k') => decide (k' = 0)
          | _ => false)
        | _ => false)
    | _ => false) = true := by decide

/-! ### Tie to the source: order of effects in the single-threaded interner

For `Rodeo` a failing call returns no new state in the model.  That is faithful because in the source
both possible failures (`K::try_from_usize(..)?`, `arena.store_str(..)?`) happen before anything is
mutated: the effect sequences regenerated from the two functions are hash, probe, key check, [store],
push, table insert — in this order, and nothing else touches the fields. -/
theorem rodeo_failures_precede_mutation :
    Extracted.rodeoInternEffects = [.hashOne, .probe, .keyCheck, .store, .stringsPush, .tableInsert] ∧
    Extracted.rodeoInternStaticEffects = [.hashOne, .probe, .keyCheck, .stringsPush, .tableInsert] := by
  decide

/-- The single-threaded interner's two interning functions *are* their regenerated effect sequences: the
sequences are given a semantics (`LassoModel/InternInterp.lean`: hash; probe - an occupied entry returns its key at
once; key check for the next position with the key-space error; store with the memory error, copying path only;
push; table insert under the hash, with the re-hash closure over the new vector) and running them equals
`Rodeo.tryIntern` / `Rodeo.tryInternStatic` for every state, string and growth oracle.  Every theorem about the
model functions is therefore a theorem about what the source's statements do in the source's order. -/
theorem interning_runs_the_source (env : Env) (r : Rodeo) (grow : Bool) :
    (∀ x, interpIntern env Extracted.rodeoInternEffects r x grow = r.tryIntern env x grow) ∧
    (∀ i, interpInternStatic env Extracted.rodeoInternStaticEffects r i grow = r.tryInternStatic env i grow) :=
  ⟨fun x => interp_intern_is_model env r x grow, fun i => interp_intern_static_is_model env r i grow⟩

/-- The code this file's theorems are about is the same under every feature configuration: the regenerated
census of conditional compilation contains import blocks, whole serde impls, optional-dependency impls and
module declarations only, and no gate inside any function body (`Lemmas/Config.lean`). -/
theorem same_code_under_every_feature_configuration :
    (Extracted.cfgGates.all fun g => g.kind != .other) = true ∧ Extracted.bodyGates.isEmpty = true :=
  Lasso.one_code_base_for_all_configurations

end Lasso.C07
