import LassoModel.Driver
open Lasso.Driver

partial def loop (h : IO.FS.Stream) (out : IO.FS.Stream) (st : DState) : IO Unit := do
  let line ← h.getLine
  if line.isEmpty then return ()
  let (st', o) := step st line
  out.putStrLn o
  loop h out st'

def main : IO Unit := do
  let stdin ← IO.getStdin
  let stdout ← IO.getStdout
  loop stdin stdout {}
