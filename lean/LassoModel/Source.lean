/-
  Types of the facts that the extractor (`/verif/extractor`) regenerates from /repo's working tree
  on every run into `LassoModel/Extracted.lean`.  Nothing here is specific to the current source;
  the values are.
-/
namespace Lasso.Source

/-- Integer types that occur in key arithmetic. -/
inductive Ty where
  | u8 | u16 | u32 | usize
  | other (s : String)
  deriving DecidableEq, Repr, Inhabited

/-- `2^bits` of a type (64-bit target). `other` has no modulus: evaluation fails. -/
def Ty.modulus : Ty → Option Nat
  | .u8 => some 256
  | .u16 => some 65536
  | .u32 => some 4294967296
  | .usize => some 18446744073709551616
  | .other _ => none

/-- Expression language of the key conversions (`keys.rs`). -/
inductive KExpr where
  | var                         -- the function's parameter (`int`), resp. `self.key.get()`
  | lit (n : Nat)
  | tmax (t : Ty)               -- `T::MAX`
  | cast (e : KExpr) (t : Ty)   -- `e as t`  (truncating)
  | add (a b : KExpr)
  | sub (a b : KExpr)
  | unknown (s : String)        -- anything the extractor does not recognise
  deriving Repr, Inhabited, DecidableEq

inductive Cmp where
  | lt | le | ne | other
  deriving DecidableEq, Repr, Inhabited

/-- One `unsafe impl Key for T` block plus the surrounding facts about `T`. -/
structure KeySpec where
  name : String
  backing : Ty                 -- NonZero<backing>
  guardCmp : Cmp               -- `if lhs <cmp> rhs { Some(new_unchecked(store)) } else { None }`
  guardLhs : KExpr
  guardRhs : KExpr
  store : KExpr
  load : KExpr                 -- body of `into_usize`, `var` = `self.key.get()`
  defaultIdx : Option Nat      -- `Default::default() = try_from_usize(n).unwrap()`
  derivesOrdEq : Bool          -- `#[derive(PartialEq, Eq, PartialOrd, Ord)]` on a one-field struct
  reprTransparent : Bool
  serdeRaw : Bool              -- serde impls pass the raw NonZero through unchanged
  deriving Repr, Inhabited

/-- Memory orderings. -/
inductive Ord where
  | relaxed | acquire | release | acqRel | seqCst | other
  deriving DecidableEq, Repr, Inhabited

inductive AtomicKind where
  | load | store | fetchAdd | cas | casWeak | swap | other
  deriving DecidableEq, Repr, Inhabited

/-- What an atomic operation is for, decided by the extractor from (file, function, receiver, kind). -/
inductive AtomicRole where
  | headLoad        -- `self.head.load` in `push_front` / `drop`: the value is only stored or used under `&mut`
  | headCas         -- the compare-exchange that publishes a new block at the head of the list
  | walkLoad        -- `self.current.load` in the iterator: the loaded pointer is dereferenced
  | nextLoad        -- `(*p).next.load` under `&mut self` (drop)
  | lenLoad         -- `length.load` in `try_inc_length`
  | lenCas          -- the compare-exchange that reserves `[len, len+n)` of a block
  | keyCounter      -- the interner's key counter (`self.key` in threaded_rodeo.rs)
  | counter         -- usage / limit / block capacity: values only, nothing is published through them
  | audit           -- inside a `verif_*` hook
  | unknown         -- anything else: not covered by the model
  deriving DecidableEq, Repr, Inhabited

/-- One atomic operation as written in the source. -/
structure AtomicOp where
  role : AtomicRole
  file : String
  func : String                -- enclosing fn
  loc : String                 -- receiver expression, normalised (e.g. `self.head`, `length`)
  kind : AtomicKind
  ord : Ord                    -- success ordering
  failOrd : Ord                -- failure ordering (cas only; `other` otherwise)
  deriving DecidableEq, Repr, Inhabited

/-- Auto traits. -/
inductive Marker where
  | send | sync
  deriving DecidableEq, Repr, Inhabited

/-- Generic parameters of the containers. -/
inductive TParam where
  | K | S
  | other (s : String)
  deriving DecidableEq, Repr, Inhabited

/-- Type constructors that occur in the containers' fields. -/
inductive TCon where
  | rodeo | threadedRodeo | reader | resolver
  | arena | lockfreeArena | anyArena | bucket | atomicBucket | atomicBucketList
  | hashMap | dashMap | vec | phantomData | nonNull | atomicUsize | atomicPtr | nonZero | int | str | unit
  | other (s : String)
  deriving DecidableEq, Repr, Inhabited

/-- Types, as far as auto traits care. -/
inductive TyE where
  | param (p : TParam)
  | app (c : TCon) (args : List TyE)
  | ref (t : TyE)
  | array (t : TyE)
  deriving Repr, Inhabited

/-- `unsafe impl<..> Send/Sync for T<..>` with the marker bounds it puts on `T`'s own parameters. -/
structure MarkerImpl where
  ty : TCon
  trait_ : Marker
  params : List TParam               -- the type's arguments in the impl header, in order
  bounds : List (TParam × Marker)    -- `K: Send` etc. (other bounds are irrelevant to auto traits)
  deriving Repr, Inhabited

/-- A struct or enum and the types of all its fields (all variants). -/
structure StructDef where
  name : TCon
  params : List TParam
  fields : List TyE
  deriving Repr, Inhabited

/-- Receiver of a method. -/
inductive Recv where
  | ref | refMut | val | boxSelf | none
  deriving DecidableEq, Repr, Inhabited

/-- Where the lifetime of a returned string / iterator item comes from. -/
inductive LtClass where
  | self_        -- tied to the borrow of `self`
  | static_      -- `'static`
  | free         -- a lifetime not tied to any input (unsound for borrowed data)
  | noStr        -- returns no string
  deriving DecidableEq, Repr, Inhabited

/-- Entry points the lifetime property talks about. -/
inductive SigName where
  | resolve | tryResolve | resolveUnchecked | index | iter | strings | intoIter
  | clear | intoReader | intoResolver | tryCloneFrom | cloneFrom
  | getOrIntern | tryGetOrIntern | getOrInternStatic | tryGetOrInternStatic
  | other (s : String)
  deriving DecidableEq, Repr, Inhabited

/-- Who owns a method: one of the four containers, a trait of the interface layer, an iterator type. -/
inductive Owner where
  | rodeo | threaded | reader | resolver
  | traitResolver | traitReader | traitInterner
  | iterType (threaded : Bool) (strings : Bool)      -- `Iter`/`Strings` of util.rs resp. threaded_rodeo.rs
  | other (s : String)
  deriving DecidableEq, Repr, Inhabited

structure FnSig where
  owner : Owner
  name : SigName
  recv : Recv
  strArgStatic : Option Bool   -- first `str` parameter: `some true` = `&'static str`, `some false` = borrowed
  ret : LtClass                -- where the lifetime of the returned string / iterator comes from
  isUnsafe : Bool
  deriving DecidableEq, Repr, Inhabited

/-- `type Item` of an iterator: where the lifetime of the yielded string comes from
(`self_` = the iterator's own lifetime parameter, i.e. the borrow of the container). -/
structure IterItem where
  owner : Owner
  item : LtClass
  deriving DecidableEq, Repr, Inhabited

/-- The self type of an impl in `interface/*.rs` (and the four containers). Enumerations rather
than strings so that `decide` over the regenerated tables reduces in the kernel. -/
inductive Wrapper where
  | box | refMut | ref | threadedRef
  | rodeo | threaded | reader | resolver
  | other (s : String)
  deriving DecidableEq, Repr, Inhabited

inductive Method where
  | getOrIntern | tryGetOrIntern | getOrInternStatic | tryGetOrInternStatic
  | get | contains
  | resolve | tryResolve | resolveUnchecked | containsKey | len | isEmpty
  | intoReader | intoResolver | intoReaderBoxed | intoResolverBoxed
  | other (s : String)
  deriving DecidableEq, Repr, Inhabited

inductive CalleeKind where
  | deref                       -- `(**self).m(..)`
  | deref1                      -- `(*self).m(..)`
  | self_                       -- `self.m(..)`
  | ufcsTrait                   -- `<T as Trait<K>>::m(self, ..)` / `I::m(self, ..)` with `I` a type parameter
  | inherentUfcs (w : Wrapper)  -- `Type::m(self, ..)` / `Type::m(*self, ..)` on a concrete type
  | other
  deriving DecidableEq, Repr, Inhabited

/-- One forwarding method of a wrapper impl in `interface/*.rs`. -/
structure Forward where
  wrapper : Wrapper
  trait_ : String
  method : Method
  callee : Method
  calleeKind : CalleeKind
  deriving DecidableEq, Repr, Inhabited

/-- Shape of a `PartialEq` impl body. -/
inductive EqShape where
  | stringsEq                  -- `self.strings == other.strings`
  | lenAndAllLookup            -- `len == len && iter.all(|..| other/self.strings.get(..) == ..)`
  | other (s : String)
  deriving DecidableEq, Repr, Inhabited

structure EqImpl where
  lhs : Wrapper
  rhs : Wrapper
  shape : EqShape
  deriving DecidableEq, Repr, Inhabited

inductive HashSiteKind where
  | binding     -- `let hash = …;`
  | call        -- a call of `hash_one` (or of hand-rolled hashing)
  | use         -- the hash argument of `from_hash`
  | rehash      -- the closure handed to the table for re-hashing an entry when it is resized
  | probeEq     -- the equality closure of a table probe (`shape` = whole-string comparison)
  deriving DecidableEq, Repr, Inhabited

inductive HashShape where
  | hashOneWhole   -- `<hasher>.hash_one(<one string variable>)` resp. the binding `hash` itself
  | other
  deriving DecidableEq, Repr, Inhabited

/-- One place where a table hash is computed or used. -/
structure HashSite where
  file : String
  func : String
  kind : HashSiteKind
  shape : HashShape
  text : String
  deriving Repr, Inhabited

/-! ### The growth part of `store_str` (what happens when no existing block has room), translated
statement by statement from the source into a small decision tree. -/

inductive GVar where
  | len | bucketCap | usage | max | nextCap | remaining
  deriving DecidableEq, Repr, Inhabited

inductive GExpr where
  | var (v : GVar)
  | lit (n : Nat)
  | mul (a b : GExpr)
  | add (a b : GExpr)
  | satSub (a b : GExpr)
  | unknown (text : String)
  deriving DecidableEq, Repr, Inhabited

inductive GCond where
  | gt (a b : GExpr)
  | lt (a b : GExpr)
  | ge (a b : GExpr)
  | le (a b : GExpr)
  | not (c : GCond)
  | unknown (text : String)
  deriving DecidableEq, Repr, Inhabited

/-- Where the new block goes. -/
inductive GPlace where
  | pushBack             -- `self.buckets.push(bucket)`
  | insertBeforeLast     -- `self.buckets.insert(self.buckets.len().saturating_sub(2), bucket)`
  | pushFront            -- `self.buckets.push_front(bucket.into_ref())`
  | missing
  deriving DecidableEq, Repr, Inhabited

/-- One successful path: `allocate_memory(claim)?`, a new block of `size` bytes (`sizeChecked`: built
with the checking `NonZeroUsize::new(..).ok_or_else(..)?`), optionally a new block capacity, the string
pushed into the new block and the block placed. -/
structure GAlloc where
  claim : GExpr
  size : GExpr
  sizeChecked : Bool
  setCap : Option GExpr
  place : GPlace
  deriving DecidableEq, Repr, Inhabited

inductive GTree where
  | bind (v : GVar) (e : GExpr) (k : GTree)
  | ite (c : GCond) (t e : GTree)
  | err                                   -- `return Err(MemoryLimitReached)`
  | alloc (a : GAlloc)
  | unknown (text : String)               -- a statement the translator does not understand
  deriving DecidableEq, Repr, Inhabited

/-- The effectful operations of the concurrent interner's two interning functions. -/
inductive Effect where
  | fastGet          -- `self.map.get(..)` before any lock is taken
  | lockShard        -- `self.map.shards().get(..).unwrap().write()`
  | recheck          -- `shard.find_or_find_insert_slot(..)` under the lock
  | lockEntry        -- `self.map.entry(..)`: lock and second lookup in one
  | store            -- `self.arena.store_str(..)`
  | keyFetch         -- `self.key.fetch_add(1, ..)`
  | keyCheck         -- `K::try_from_usize(..)`
  | stringsInsert    -- `self.strings.insert(key, string)`
  | mapInsert        -- `shard.insert_in_slot(..)` resp. `v.insert(key)`
  | other (text : String)
  deriving DecidableEq, Repr, Inhabited

/-- The effectful operations of the single-threaded interner's two interning functions. -/
inductive REffect where
  | hashOne | probe | keyCheck | store | stringsPush | tableInsert
  | other (text : String)
  deriving DecidableEq, Repr, Inhabited

inductive FieldName where
  | map | hasher | strings | arena
  deriving DecidableEq, Repr, Inhabited

inductive CtorShape where
  | readerNew (args : List FieldName)
  | resolverNew (args : List FieldName)
  deriving DecidableEq, Repr, Inhabited

/-- Body of one of the small functions the model mirrors literally. -/
inductive BodyShape where
  | clears (fields : List FieldName)      -- `self.<field>.clear();` in this order, nothing else
  | moves (ctor : CtorShape)              -- destructure `self`, hand the fields to the constructor
  | other (text : String)
  deriving DecidableEq, Repr, Inhabited

/-- Shape of `LockfreeArena::allocate_memory`. -/
inductive AllocShape where
  | checkThenAdd               -- load, compare, fetch_add as separate steps
  | casLoop                    -- one compare-exchange loop (or fetch_update)
  | other (s : String)
  deriving DecidableEq, Repr, Inhabited

/-! ### Constructors and the `Capacity` / `MemoryLimits` builders -/

/-- What a constructor hands to the full constructor in one argument position. -/
inductive CArg where
  | param                       -- the constructor's own parameter of that kind
  | default                     -- `Capacity::default()` / `MemoryLimits::default()` / `S::default()`
  | randomNew                   -- `RandomState::new()`
  | other (s : String)
  deriving DecidableEq, Repr, Inhabited

inductive CtorName where
  | new | withCapacity | withMemoryLimits | withCapacityAndMemoryLimits | withHasher | withCapacityAndHasher
  | full | default
  | other (s : String)
  deriving DecidableEq, Repr, Inhabited

/-- One constructor, resolved (through any chain of calls between constructors) down to the arguments the
full constructor `with_capacity_memory_limits_and_hasher` receives. -/
structure CtorSpec where
  owner : Wrapper
  name : CtorName
  cap : CArg
  lim : CArg
  hasher : CArg
  deriving DecidableEq, Repr, Inhabited

/-- Where a value used by the full constructor comes from. -/
inductive CSrc where
  | capStrings | capBytes | limMax
  | lit (n : Nat)
  | other (s : String)
  deriving DecidableEq, Repr, Inhabited

/-- The full constructor: the arena is `Arena::new(arenaBytes, arenaMax)`, the table(s) and the string
vector are pre-sized with `tablePresize`, the key counter (concurrent interner) starts at `keyStart`. -/
structure FullCtor where
  owner : Wrapper
  arenaBytes : CSrc
  arenaMax : CSrc
  tablePresize : CSrc
  keyStart : Option Nat
  deriving DecidableEq, Repr, Inhabited

/-- A field value produced by a builder. -/
inductive CVal where
  | param | lit (n : Nat) | usizeMax
  | other (s : String)
  deriving DecidableEq, Repr, Inhabited

inductive BuilderName where
  | new | forStrings | forBytes | minimal | default | forMemoryUsage
  | other (s : String)
  deriving DecidableEq, Repr, Inhabited

structure CapBuilder where
  name : BuilderName
  strings : CVal
  bytes : CVal
  deriving DecidableEq, Repr, Inhabited

structure LimBuilder where
  name : BuilderName
  max : CVal
  deriving DecidableEq, Repr, Inhabited

/-! ### The deserialisers as effect sequences -/

/-- What a key check inside a deserialiser is applied to. -/
inductive KArg where
  | loopIndex        -- the position of the entry in the list (`enumerate()`)
  | lenMinusOne      -- the last position (`len.checked_sub(1)`)
  | len              -- the number of entries (one past the last position)
  | other
  deriving DecidableEq, Repr, Inhabited

inductive DEffect where
  | readList                 -- `Vec::<String>::deserialize(d)?`
  | readMap                  -- `HashMap::<String, K>::deserialize(d)?`
  | presizeExact             -- a container created with capacity = number of entries read
  | arenaUnlimited           -- `Arena::new(bytes, usize::MAX)`
  | loopBegin | loopEnd      -- `for .. in <entries>`
  | store | expectStored     -- `arena.store_str(..)` and the `.expect(..)` on its result
  | hashOne | probe          -- `hash_one(..)`, `raw_entry_mut().from_hash(..)`
  | keyCheck (arg : KArg)    -- `K::try_from_usize(arg)`
  | reject                   -- `return Err(..)` / `.ok_or_else(..)?`
  | stringsPush | tableInsert
  | counterMax               -- `if key >= next { next = key + 1 }`
  | mapInsert | stringsInsert
  | finalCheck               -- `strings.len() != map.len() || next != strings.len()`
  | other (text : String)
  deriving DecidableEq, Repr, Inhabited

/-! ### Cloning as effect sequences -/

inductive CEffect where
  | sumLengths              -- total length of the source's strings (default capacity when that is 0)
  | arenaSizedToContent     -- `Arena::new(total, max(source limit, total))`
  | presizeExact            -- vector / table created with the source's count
  | cloneHasher             -- `self.hasher.clone()`
  | clearTarget             -- `self.clear()` (clone_from: the target is emptied first)
  | takeHasher              -- `self.hasher = source.hasher.clone()`
  | reserve                 -- `try_reserve` on the target's vector / table
  | copyAll                 -- the call of `clone_strings_into`
  | propagate               -- `?` on a fallible step
  | loopBegin | loopEnd
  | store | stringsPush | hashOne | probe
  | keyCheck (arg : KArg)
  | reject
  | tableInsert
  | other (text : String)
  deriving DecidableEq, Repr, Inhabited

/-! ### `Extend` / `FromIterator` -/

inductive CollEffect where
  | pure                 -- a local that involves neither the interner nor control flow (iterator, size hint, capacity)
  | buildWithHint        -- `Self::with_capacity_and_hasher(Capacity::for_strings(hint), <default hasher>)`
  | buildDefault         -- `Self::new()` / `Self::default()`
  | loopBegin | loopEnd  -- one turn per item, in order (for / while-let-next / loop-match-next / for_each)
  | internItem           -- `<the interner>.get_or_intern(item.as_ref())`
  | returnBuilt
  | other (text : String)
  deriving DecidableEq, Repr, Inhabited

/-- `Arena::clear`: which blocks it resets. -/
inductive ClearShape where
  | everyBlock
  | other (text : String)
  deriving DecidableEq, Repr, Inhabited

/-! ### Release of storage blocks -/

inductive MemKind where
  | alloc (callee : String)        -- `alloc`, `alloc_zeroed`, `realloc`
  | dealloc (callee : String)
  | escape (callee : String)       -- `forget`, `leak`, `into_raw`, `from_raw`, `ManuallyDrop`, ...
  deriving DecidableEq, Repr, Inhabited

structure MemSite where
  file : String
  func : String
  kind : MemKind
  deriving DecidableEq, Repr, Inhabited

/-- The single-threaded block: layout text at allocation and at release, whether the pointer freed is the block's
own, how many `dealloc` calls the `Drop` has and whether the call sits under a condition or loop. -/
structure BlockRelease where
  allocLayout : String
  releaseLayout : String
  pointerIsOwn : Bool
  deallocCalls : Nat
  conditional : Bool
  deriving DecidableEq, Repr, Inhabited

inductive DropPtr where
  | head | current | other
  deriving DecidableEq, Repr, Inhabited

/-- `impl Drop for AtomicBucketList`, statement by statement. -/
inductive DropEffect where
  | loadHead                       -- `let mut head = self.head.load(..)`
  | whileHeadNonNull | loopEnd     -- `while !head.is_null() { .. }`
  | saveCurrent                    -- `let current = head`
  | advance (p : DropPtr)          -- `head = (*p).next.load(..)`
  | readCapacity (p : DropPtr)     -- `let capacity = (*p).capacity`
  | layoutOfCapacity               -- `let layout = AtomicBucket::layout(capacity)..`
  | dealloc (p : DropPtr) (layoutIsThatLocal : Bool)
  | other (text : String)
  deriving DecidableEq, Repr, Inhabited

/-- One method of a view: how it takes `self` and which fields it touches. -/
structure ViewMethod where
  owner : Wrapper
  trait_ : String
  name : String
  recv : Recv
  fields : List FieldName
  unknownField : Bool          -- touches a field of `self` the extractor does not know
  deriving Repr, Inhabited

/-! ### Conditional compilation -/

inductive GateKind where
  | imports        -- `use` / `extern crate` items only
  | serdeImpl      -- a whole `Serialize` / `Deserialize` impl behind `feature = "serialize"`
  | optionalDep    -- impls for optional dependencies (deepsize, abomonation)
  | moduleDecl     -- `mod x;` of a feature-only module
  | emptyImpl      -- an impl without items (`impl std::error::Error for LassoError {}`)
  | other          -- anything else: code that differs between feature configurations
  deriving DecidableEq, Repr, Inhabited

structure CfgGate where
  file : String
  kind : GateKind
  text : String
  deriving Repr, Inhabited

end Lasso.Source
