import LassoModel.Rodeo
import LassoModel.Extracted
/-
  Semantics of the effect sequences regenerated from `Rodeo::try_get_or_intern` and
  `try_get_or_intern_static` (`Extracted.rodeoInternEffects`, `rodeoInternStaticEffects`): hash, probe (an occupied
  entry returns its key at once), key check for the next position (`?`: key-space error), store (`?`: memory
  error; copying path only), push, table insert.  Running them is proved to be the model's `Rodeo.tryIntern` /
  `tryInternStatic` (`Lemmas/InternInterp.lean`).
-/
namespace Lasso
open Lasso.Source

structure IReg where
  r : Rodeo
  hash : Option UInt64
  probed : Bool
  keyOk : Bool
  ref : Option StrRef            -- what will be pushed: the arena copy, or the caller's static reference

/-- Result of running a prefix of the effects: still going, or the call has returned. -/
inductive IRes where
  | go (s : IReg)
  | ret (o : Out (Rodeo × Nat))

def Source.REffect.run (env : Env) (x : Bytes) (grow : Bool) (e : REffect) (s : IReg) : IRes :=
  match e with
  | .hashOne => .go { s with hash := some (env.hash x) }
  | .probe =>
    match s.r.get env x with
    | .ok (some k) => .ret (.ok (s.r, k))            -- `Occupied`: the key that is there
    | .ok none => .go { s with probed := true }
    | .err e => .ret (.err e)
    | .panic => .ret .panic
    | .fault f => .ret (.fault f)
  | .keyCheck =>
    match keyOfIndex s.r.N s.r.strings.length with
    | none => .ret (.err .keySpace)
    | some _ => .go { s with keyOk := true }
  | .store =>
    match s.r.arena.store x with
    | .ok (a', ref) => .go { s with r := { s.r with arena := a' }, ref := some ref }
    | .err e => .ret (.err e)
    | .panic => .ret .panic
    | .fault f => .ret (.fault f)
  | .stringsPush =>
    match s.ref with
    | some ref => .go { s with r := { s.r with strings := s.r.strings ++ [ref] } }
    | none => .ret (.fault .unreachable)
  | .tableInsert =>
    match s.hash, s.probed && s.keyOk, s.ref with
    | some h, true, some _ =>
      -- the key is the position the string was pushed to
      let k := s.r.strings.length - 1
      match Lasso.tableInsert s.r.table h k grow (rehashFn env s.r.arena.read s.r.strings) with
      | .ok t' => .ret (.ok ({ s.r with table := t' }, k))
      | .err e => .ret (.err e)
      | .panic => .ret .panic
      | .fault f => .ret (.fault f)
    | _, _, _ => .ret (.fault .unreachable)
  | .other _ => .ret (.fault .unreachable)

def runREffects (env : Env) (x : Bytes) (grow : Bool) : List REffect → IReg → Out (Rodeo × Nat)
  | [], _ => .fault .unreachable          -- fell off the end without returning
  | e :: es, s =>
    match e.run env x grow s with
    | .go s' => runREffects env x grow es s'
    | .ret o => o

/-- `try_get_or_intern(x)` run from the regenerated sequence. -/
def interpIntern (env : Env) (effs : List REffect) (r : Rodeo) (x : Bytes) (grow : Bool) : Out (Rodeo × Nat) :=
  runREffects env x grow effs { r := r, hash := none, probed := false, keyOk := false, ref := none }

/-- `try_get_or_intern_static(pool[i])`: nothing is stored, the caller's reference is what gets pushed. -/
def interpInternStatic (env : Env) (effs : List REffect) (r : Rodeo) (i : Nat) (grow : Bool) : Out (Rodeo × Nat) :=
  match env.pool[i]? with
  | none => .fault .unreachable
  | some x => runREffects env x grow effs { r := r, hash := none, probed := false, keyOk := false, ref := some (.static i) }

end Lasso
