import LassoModel.Serde
import LassoModel.Extracted
/-
  Semantics of the effect sequence the extractor regenerates from a list deserialiser
  (`Extracted.deRodeoEffects`, `deReaderEffects`): the loop body is *run* effect by effect over the registers of one
  iteration.  `LassoProofs/Lemmas/DeserInterp.lean` proves that running the regenerated sequence is the model's
  `deListLoop` - so the model is what the source's statements do, in the source's order, and a reordering that
  does not change the outcome (or one that does) is decided by proof, not by comparing spellings.
-/
namespace Lasso
open Lasso.Source

/-- Registers of one pass through the loop body. -/
structure DReg where
  t : Table
  ss : List StrRef
  a : Arena
  stored : Option (Out (Arena × StrRef))    -- result of `store_str`, before `expect`
  ref : Option StrRef                       -- the stored copy (`allocated`)
  hash : Option UInt64                      -- `let hash = hasher.hash_one(allocated)`
  pending : Option Bool                     -- outcome of the last check: `some true` calls for rejection
  keyOk : Bool                              -- a key for this position exists

def DReg.start (t : Table) (ss : List StrRef) (a : Arena) : DReg :=
  { t := t, ss := ss, a := a, stored := none, ref := none, hash := none, pending := none, keyOk := false }

/-- One effect.  `grow` says whether the table may have to grow on insert (it was not pre-sized with the number
of entries); `x` is the entry, `idx` its position. -/
def Source.DEffect.run (env : Env) (N : Nat) (grow : Bool) (x : Bytes) (idx : Nat) (e : DEffect) (r : DReg) : Out DReg :=
  match e with
  | .store => .ok { r with stored := some (r.a.store x) }
  | .expectStored =>
    match r.stored with
    | some (.ok (a', ref)) => .ok { r with a := a', ref := some ref, stored := none }
    | some (.err _) => .panic
    | some .panic => .panic
    | some (.fault f) => .fault f
    | none => .fault .unreachable
  | .hashOne => .ok { r with hash := some (env.hash x) }
  | .probe =>
    match r.ref with
    | none => .fault .unreachable
    | some _ =>
      match tableFind env r.a.read r.ss r.t x with
      | .ok o => .ok { r with pending := some o.isSome }
      | .err e => .err e
      | .panic => .panic
      | .fault f => .fault f
  | .keyCheck .loopIndex =>
    .ok { r with pending := some (keyOfIndex N idx).isNone, keyOk := (keyOfIndex N idx).isSome }
  | .reject =>
    match r.pending with
    | some true => .err .serde
    | some false => .ok { r with pending := none }
    | none => .fault .unreachable
  | .stringsPush =>
    match r.ref with
    | some ref => .ok { r with ss := r.ss ++ [ref] }
    | none => .fault .unreachable
  | .tableInsert =>
    match r.hash, r.keyOk, r.pending with
    | some h, true, none =>
      match Lasso.tableInsert r.t h idx grow (rehashFn env r.a.read r.ss) with
      | .ok t' => .ok { r with t := t' }
      | .err e => .err e
      | .panic => .panic
      | .fault f => .fault f
    | _, _, _ => .fault .unreachable
  | _ => .fault .unreachable

def runEffects (env : Env) (N : Nat) (grow : Bool) (x : Bytes) (idx : Nat) : List DEffect → DReg → Out DReg
  | [], r => .ok r
  | e :: es, r =>
    match e.run env N grow x idx r with
    | .ok r' => runEffects env N grow x idx es r'
    | .err e => .err e
    | .panic => .panic
    | .fault f => .fault f

/-- The effects between `loopBegin` and `loopEnd`. -/
def loopBody (effs : List DEffect) : List DEffect :=
  ((effs.dropWhile (· != .loopBegin)).drop 1).takeWhile (· != .loopEnd)

/-- The table needs no growth while the document is read iff both containers were created with the number of
entries (two `presizeExact` before the loop). -/
def mayGrow (effs : List DEffect) : Bool :=
  ((effs.takeWhile (· != .loopBegin)).filter (· == .presizeExact)).length < 2

/-- The loop of a list deserialiser, run from its regenerated effect sequence. -/
def interpListLoop (env : Env) (N : Nat) (effs : List DEffect) :
    List Bytes → Nat → Table → List StrRef → Arena → Out (Table × List StrRef × Arena)
  | [], _, t, ss, a => .ok (t, ss, a)
  | x :: rest, idx, t, ss, a =>
    match runEffects env N (mayGrow effs) x idx (loopBody effs) (DReg.start t ss a) with
    | .ok r =>
      -- every check has been acted upon and the copy was pushed
      if r.pending.isNone && r.stored.isNone then interpListLoop env N effs rest (idx + 1) r.t r.ss r.a
      else .fault .unreachable
    | .err e => .err e
    | .panic => .panic
    | .fault f => .fault f

end Lasso

namespace Lasso
open Lasso.Source

/-! ### The resolver's and the concurrent interner's deserialisers -/

/-- Registers of one pass through the loop body of `RodeoResolver::deserialize`. -/
structure RReg where
  ss : List StrRef
  a : Arena
  stored : Option (Out (Arena × StrRef))
  ref : Option StrRef

def Source.DEffect.runR (x : Bytes) (e : DEffect) (r : RReg) : Out RReg :=
  match e with
  | .store => .ok { r with stored := some (r.a.store x) }
  | .expectStored =>
    match r.stored with
    | some (.ok (a', ref)) => .ok { r with a := a', ref := some ref, stored := none }
    | some (.err _) => .panic
    | some .panic => .panic
    | some (.fault f) => .fault f
    | none => .fault .unreachable
  | .stringsPush =>
    match r.ref with
    | some ref => .ok { r with ss := r.ss ++ [ref], ref := none }
    | none => .fault .unreachable
  | _ => .fault .unreachable

def runEffectsR (x : Bytes) : List DEffect → RReg → Out RReg
  | [], r => .ok r
  | e :: es, r =>
    match e.runR x r with
    | .ok r' => runEffectsR x es r'
    | .err e => .err e
    | .panic => .panic
    | .fault f => .fault f

def interpResolverLoop (effs : List DEffect) : List Bytes → List StrRef → Arena → Out (List StrRef × Arena)
  | [], ss, a => .ok (ss, a)
  | x :: rest, ss, a =>
    match runEffectsR x (loopBody effs) { ss := ss, a := a, stored := none, ref := none } with
    | .ok r => if r.stored.isNone && r.ref.isNone then interpResolverLoop effs rest r.ss r.a else .fault .unreachable
    | .err e => .err e
    | .panic => .panic
    | .fault f => .fault f

/-- What precedes the resolver's loop: the key check of the *last* position and its rejection. -/
def resolverPrecheck (N : Nat) (effs : List DEffect) (n : Nat) : Option Bool :=
  match (effs.takeWhile (· != .loopBegin)).filter (fun e => e == .keyCheck .lenMinusOne || e == .keyCheck .len || e == .keyCheck .loopIndex || e == .keyCheck .other || e == .reject) with
  | [.keyCheck .lenMinusOne, .reject] => some (decide (n ≠ 0 ∧ (keyOfIndex N (n - 1)).isNone))
  | _ => none

/-- Registers of one pass through the loop body of `ThreadedRodeo::deserialize`. -/
structure TReg where
  t : Threaded
  stored : Option (Out (LArena × StrRef))
  ref : Option StrRef

def Source.DEffect.runT (x : Bytes) (raw : Nat) (e : DEffect) (r : TReg) : Out TReg :=
  let idx := indexOfKey raw
  match e with
  | .counterMax => .ok { r with t := { r.t with ctr := Nat.max r.t.ctr (idx + 1) } }
  | .store => .ok { r with stored := some (r.t.arena.store x) }
  | .expectStored =>
    match r.stored with
    | some (.ok (a', ref)) => .ok { r with t := { r.t with arena := a' }, ref := some ref, stored := none }
    | some (.err _) => .panic
    | some .panic => .panic
    | some (.fault f) => .fault f
    | none => .fault .unreachable
  | .mapInsert =>
    match r.ref with
    | some ref => .ok { r with t := { r.t with map := r.t.map ++ [(ref, idx)] } }
    | none => .fault .unreachable
  | .stringsInsert =>
    match r.ref with
    | some ref => .ok { r with t := { r.t with strs := assocInsert idx ref r.t.strs } }
    | none => .fault .unreachable
  | _ => .fault .unreachable

def runEffectsT (x : Bytes) (raw : Nat) : List DEffect → TReg → Out TReg
  | [], r => .ok r
  | e :: es, r =>
    match e.runT x raw r with
    | .ok r' => runEffectsT x raw es r'
    | .err e => .err e
    | .panic => .panic
    | .fault f => .fault f

def interpThreadedLoop (effs : List DEffect) : List (Bytes × Nat) → Threaded → Out Threaded
  | [], t => .ok t
  | (x, raw) :: rest, t =>
    match runEffectsT x raw (loopBody effs) { t := t, stored := none, ref := none } with
    | .ok r => if r.stored.isNone then interpThreadedLoop effs rest r.t else .fault .unreachable
    | .err e => .err e
    | .panic => .panic
    | .fault f => .fault f

/-- What follows the loop: the final validation and its rejection. -/
def threadedPostcheck (effs : List DEffect) : Bool :=
  ((effs.dropWhile (· != .loopEnd)).drop 1) == [.finalCheck, .reject]

end Lasso
