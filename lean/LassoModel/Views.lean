import LassoModel.Rodeo
/-
  `RodeoReader`, `RodeoResolver` (reader.rs, resolver.rs), the concurrent interner used from one
  thread (`ThreadedRodeo`, threaded_rodeo.rs — DashMaps abstracted to association lists, the
  lock-free arena by its sequential semantics), the conversions between them, equality and serde at
  serde's data-model level.
-/
namespace Lasso

structure Reader where
  table : Table
  strings : List StrRef
  arena : AnyArena
  N : Nat
  deriving Inhabited

structure Resolver where
  strings : List StrRef
  arena : AnyArena
  N : Nat
  deriving Inhabited

namespace Reader
def str (env : Env) (r : Reader) (k : Nat) : Option Bytes := strAt env r.arena.read r.strings k
def get (env : Env) (r : Reader) (x : Bytes) : Out (Option Nat) := tableFind env r.arena.read r.strings r.table x
def intoResolver (r : Reader) : Resolver := { strings := r.strings, arena := r.arena, N := r.N }
def resolve (env : Env) (r : Reader) (k : Nat) : Out Bytes := resolveIn env r.arena.read r.strings k
def tryResolve (env : Env) (r : Reader) (k : Nat) : Out (Option Bytes) := tryResolveIn env r.arena.read r.strings k
def resolveUnchecked (env : Env) (r : Reader) (k : Nat) : Out Bytes := resolveUncheckedIn env r.arena.read r.strings k
def iter (env : Env) (r : Reader) : Out (List (Nat × Bytes)) := iterIn env r.arena.read r.N r.strings 0
def containsKey (r : Reader) (k : Nat) : Bool := k < r.strings.length
end Reader

namespace Resolver
def str (env : Env) (r : Resolver) (k : Nat) : Option Bytes := strAt env r.arena.read r.strings k
def resolve (env : Env) (r : Resolver) (k : Nat) : Out Bytes := resolveIn env r.arena.read r.strings k
def tryResolve (env : Env) (r : Resolver) (k : Nat) : Out (Option Bytes) := tryResolveIn env r.arena.read r.strings k
def resolveUnchecked (env : Env) (r : Resolver) (k : Nat) : Out Bytes := resolveUncheckedIn env r.arena.read r.strings k
def iter (env : Env) (r : Resolver) : Out (List (Nat × Bytes)) := iterIn env r.arena.read r.N r.strings 0
def containsKey (r : Resolver) (k : Nat) : Bool := k < r.strings.length
end Resolver

namespace Rodeo
def intoReader (r : Rodeo) : Reader := { table := r.table, strings := r.strings, arena := .st r.arena, N := r.N }
def intoResolver (r : Rodeo) : Resolver := { strings := r.strings, arena := .st r.arena, N := r.N }
end Rodeo

/-! ## ThreadedRodeo, one thread -/

structure Threaded where
  map : List (StrRef × Nat)      -- string -> key   (DashMap<&'static str, K>)
  strs : List (Nat × StrRef)     -- key -> string   (DashMap<K, &'static str>)
  ctr : Nat                      -- AtomicUsize key counter
  arena : LArena
  N : Nat
  unordered : Bool               -- built by deserialisation: arena placement order is the (random)
                                 -- iteration order of a HashMap, so offsets are not reproducible
  deriving Inhabited

/-- `DashMap::insert`: overwrite an existing entry for the key. -/
def assocInsert [BEq κ] (k : κ) (v : ν) (l : List (κ × ν)) : List (κ × ν) :=
  (k, v) :: l.filter (fun e => !(e.1 == k))

def assocGet [BEq κ] (k : κ) (l : List (κ × ν)) : Option ν :=
  (l.find? (fun e => e.1 == k)).map (·.2)

namespace Threaded

def new (N cap max : Nat) : Threaded :=
  { map := [], strs := [], ctr := 0, arena := LArena.new cap max, N := N, unordered := false }

def content (env : Env) (t : Threaded) (ref : StrRef) : Option Bytes := contentOf env t.arena.read ref

/-- `map.get(str)`: DashMap compares keys by string content. -/
def get (env : Env) (t : Threaded) (x : Bytes) : Option Nat :=
  (t.map.find? (fun e => t.content env e.1 == some x)).map (·.2)

def resolveRef (t : Threaded) (k : Nat) : Option StrRef := assocGet k t.strs
def str (env : Env) (t : Threaded) (k : Nat) : Option Bytes :=
  match t.resolveRef k with
  | some r => t.content env r
  | none => none

/-- `resolve`: `strings.get(key).expect("Key out of bounds")`. -/
def resolve (env : Env) (t : Threaded) (k : Nat) : Out Bytes :=
  match t.resolveRef k with
  | some r => match t.content env r with
    | some b => .ok b
    | none => .fault .oobIndex
  | none => .panic
def tryResolve (env : Env) (t : Threaded) (k : Nat) : Out (Option Bytes) :=
  match t.resolveRef k with
  | some r => match t.content env r with
    | some b => .ok (some b)
    | none => .fault .oobIndex
  | none => .ok none

def len (t : Threaded) : Nat := t.strs.length
def containsKey (t : Threaded) (k : Nat) : Bool := (t.resolveRef k).isSome

/-- `ThreadedRodeo::try_get_or_intern`: store, then `fetch_add`, then key check, then the two inserts.
On key exhaustion the counter and the arena have already moved. -/
def tryIntern (env : Env) (t : Threaded) (x : Bytes) : Threaded × Out Nat :=
  match t.get env x with
  | some k => (t, .ok k)
  | none =>
    match t.arena.store x with
    | .ok (a', ref) =>
      let idx := t.ctr
      let t1 := { t with arena := a', ctr := t.ctr + 1 }
      match keyOfIndex t.N idx with
      | none => (t1, .err .keySpace)
      | some _ => ({ t1 with strs := assocInsert idx ref t1.strs, map := t1.map ++ [(ref, idx)] }, .ok idx)
    | .err e => (t, .err e)
    | .panic => (t, .panic)
    | .fault f => (t, .fault f)

/-- `ThreadedRodeo::try_get_or_intern_static`. -/
def tryInternStatic (env : Env) (t : Threaded) (i : Nat) : Threaded × Out Nat :=
  match env.pool[i]? with
  | none => (t, .fault .unreachable)
  | some x =>
    match t.get env x with
    | some k => (t, .ok k)
    | none =>
      let idx := t.ctr
      let t1 := { t with ctr := t.ctr + 1 }
      match keyOfIndex t.N idx with
      | none => (t1, .err .keySpace)
      | some _ => ({ t1 with strs := assocInsert idx (.static i) t1.strs, map := t1.map ++ [(.static i, idx)] }, .ok idx)

def setLimit (t : Threaded) (m : Nat) : Threaded := { t with arena := { t.arena with max := m } }

/-- `strings.into_iter().map(|s| s.unwrap()).collect()`. -/
def collectSome : List (Option α) → Option (List α)
  | [] => some []
  | none :: _ => none
  | some a :: r => (collectSome r).map (a :: ·)

/-- The scatter of `into_reader`/`into_resolver`: `vec![None; strings.len()]`, every `(key, str)`
written at `key` with `index_unchecked_mut!`, then `unwrap()` of every slot. -/
def scatter (t : Threaded) : Out (List StrRef) :=
  let n := t.strs.length
  if t.strs.all (fun e => decide (e.1 < n)) then
    match collectSome ((List.range n).map (fun i => assocGet i t.strs)) with
    | some l => .ok l
    | none => .fault .unwrapNone
  else .fault .oobIndex

/-- Rebuild the raw table from the drained string->key map. -/
def rebuildTable (env : Env) (read : Loc → Option Bytes) (strings : List StrRef) :
    List (StrRef × Nat) → Table → Out Table
  | [], t => .ok t
  | (ref, k) :: rest, t =>
    match contentOf env read ref with
    | none => .fault .oobIndex
    | some x =>
      match tableFind env read strings t x with
      | .ok none =>
        match tableInsert t (env.hash x) k false (rehashFn env read strings) with
        | .ok t' => rebuildTable env read strings rest t'
        | .err e => .err e
        | .panic => .panic
        | .fault f => .fault f
      | .ok (some _) => .fault .unreachable
      | .err e => .err e
      | .panic => .panic
      | .fault f => .fault f

def intoResolver (t : Threaded) : Out Resolver :=
  match t.scatter with
  | .ok ss => .ok { strings := ss, arena := .lf t.arena, N := t.N }
  | .err e => .err e
  | .panic => .panic
  | .fault f => .fault f

def intoReader (env : Env) (t : Threaded) : Out Reader :=
  match t.scatter with
  | .ok ss =>
    -- a key in the drained map that is out of range makes the `eq`/rehash closures index out of bounds
    if t.map.all (fun e => decide (e.2 < ss.length)) then
      match rebuildTable env t.arena.read ss t.map [] with
      | .ok tb => .ok { table := tb, strings := ss, arena := .lf t.arena, N := t.N }
      | .err e => .err e
      | .panic => .panic
      | .fault f => .fault f
    else .fault .oobIndex
  | .err e => .err e
  | .panic => .panic
  | .fault f => .fault f

/-- Iteration walks the key->string map: a permutation; the canonical form is sorted by key. -/
def insertSorted (e : Nat × StrRef) : List (Nat × StrRef) → List (Nat × StrRef)
  | [] => [e]
  | x :: r => if e.1 ≤ x.1 then e :: x :: r else x :: insertSorted e r
def sortedStrs (t : Threaded) : List (Nat × StrRef) := t.strs.foldr insertSorted []

end Threaded

/-- `Serialize for ThreadedRodeo`: the string->key map as `(string, raw key)` entries. -/
def Threaded.serDoc (env : Env) (t : Threaded) : List (Bytes × Nat) :=
  t.map.filterMap fun e => (t.content env e.1).map fun x => (x, e.2 + 1)

/-! ## `Extend` / `FromIterator`: a loop over `get_or_intern` -/

/-- `Extend::extend`: `get_or_intern` (infallible) on every item in order. Returns the interner as
the loop left it and whether it ran to the end (`false`: an `expect` panicked at that item). -/
def Rodeo.extend (env : Env) (r : Rodeo) : List Bytes → Rodeo × Bool
  | [] => (r, true)
  | x :: rest =>
    match r.tryIntern env x (growAt r.strings.length) with
    | .ok (r', _) => Rodeo.extend env r' rest
    | _ => (r, false)

def Threaded.extend (env : Env) (t : Threaded) : List Bytes → Threaded × Bool
  | [] => (t, true)
  | x :: rest =>
    match t.tryIntern env x with
    | (t', .ok _) => Threaded.extend env t' rest
    | (t', _) => (t', false)

/-- `FromIterator::from_iter`: `Capacity::for_strings(hint)` (default 4096 bytes), no limit, then the
same loop. The size hint only sizes the tables; the model has no table capacity, so it cannot matter. -/
def Rodeo.fromIter (env : Env) (N : Nat) (xs : List Bytes) : Rodeo × Bool :=
  Rodeo.extend env (Rodeo.new N 4096 18446744073709551615) xs

def Threaded.fromIter (env : Env) (N : Nat) (xs : List Bytes) : Threaded × Bool :=
  Threaded.extend env (Threaded.new N 4096 18446744073709551615) xs

/-! ## Equality (`PartialEq` impls) -/

/-- `self.strings == other.strings` on vectors of `&str`: compares contents. -/
def eqStrings (a b : Option (List Bytes)) : Out Bool :=
  match a, b with
  | some x, some y => .ok (x == y)
  | _, _ => .fault .oobIndex

/-- `self.strings.len() == other.len() && other.iter().enumerate().all(|(k, s)| self.strings.get(k) == s)`. -/
def eqThreadedVec (env : Env) (N : Nat) (t : Threaded) (other : Option (List Bytes)) : Out Bool :=
  match other with
  | none => .fault .oobIndex
  | some ys =>
    .ok (t.strs.length == ys.length &&
      (List.range ys.length).all (fun i =>
        match keyOfIndex N i with
        | none => false
        | some _ => t.str env i == ys[i]?))

/-- `ThreadedRodeo == ThreadedRodeo`: same length and every left entry is found on the right. -/
def eqThreaded (env : Env) (a b : Threaded) : Bool :=
  a.strs.length == b.strs.length &&
    a.strs.all (fun e => match a.content env e.2 with
      | some x => b.str env e.1 == some x
      | none => false)

end Lasso
