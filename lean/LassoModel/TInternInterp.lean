import LassoModel.Views
import LassoModel.Extracted
/-
  Semantics of the effect sequences regenerated from `ThreadedRodeo::try_get_or_intern(_static)`
  (`Extracted.internEffects`, `internStaticEffects`), *run by one thread*: lock-free lookup (a hit returns), the
  shard lock and the second lookup (a hit returns; with nobody else around it finds what the first lookup found),
  store (`?`), key fetch (the counter moves), key check (`?`: key-space error, with counter and arena already
  moved), the two inserts.  Running them is proved to be the sequential model `Threaded.tryIntern` /
  `tryInternStatic` (`Lemmas/TInternInterp.lean`); the interleaved semantics of the same operations is the machine
  of `Conc.lean` (C03).
-/
namespace Lasso
open Lasso.Source

structure TIReg where
  t : Threaded
  fetched : Option Nat             -- the index obtained by `fetch_add`
  keyOk : Bool
  ref : Option StrRef

inductive TIRes where
  | go (s : TIReg)
  | ret (o : Threaded × Out Nat)

def Source.Effect.run (env : Env) (x : Bytes) (e : Effect) (s : TIReg) : TIRes :=
  match e with
  | .fastGet | .recheck | .lockEntry =>
    match s.t.get env x with
    | some k => .ret (s.t, .ok k)
    | none => .go s
  | .lockShard => .go s
  | .store =>
    match s.t.arena.store x with
    | .ok (a', ref) => .go { s with t := { s.t with arena := a' }, ref := some ref }
    | .err e => .ret (s.t, .err e)
    | .panic => .ret (s.t, .panic)
    | .fault f => .ret (s.t, .fault f)
  | .keyFetch => .go { s with fetched := some s.t.ctr, t := { s.t with ctr := s.t.ctr + 1 } }
  | .keyCheck =>
    match s.fetched with
    | none => .ret (s.t, .fault .unreachable)
    | some idx =>
      match keyOfIndex s.t.N idx with
      | none => .ret (s.t, .err .keySpace)
      | some _ => .go { s with keyOk := true }
  | .stringsInsert =>
    match s.fetched, s.ref, s.keyOk with
    | some idx, some ref, true => .go { s with t := { s.t with strs := assocInsert idx ref s.t.strs } }
    | _, _, _ => .ret (s.t, .fault .unreachable)
  | .mapInsert =>
    match s.fetched, s.ref, s.keyOk with
    | some idx, some ref, true => .ret ({ s.t with map := s.t.map ++ [(ref, idx)] }, .ok idx)
    | _, _, _ => .ret (s.t, .fault .unreachable)
  | .other _ => .ret (s.t, .fault .unreachable)

def runTEffects (env : Env) (x : Bytes) : List Effect → TIReg → Threaded × Out Nat
  | [], s => (s.t, .fault .unreachable)
  | e :: es, s =>
    match e.run env x s with
    | .go s' => runTEffects env x es s'
    | .ret o => o

def interpTIntern (env : Env) (effs : List Effect) (t : Threaded) (x : Bytes) : Threaded × Out Nat :=
  runTEffects env x effs { t := t, fetched := none, keyOk := false, ref := none }

def interpTInternStatic (env : Env) (effs : List Effect) (t : Threaded) (i : Nat) : Threaded × Out Nat :=
  match env.pool[i]? with
  | none => (t, .fault .unreachable)
  | some x => runTEffects env x effs { t := t, fetched := none, keyOk := false, ref := some (.static i) }

end Lasso
