import LassoModel.Basic
import LassoModel.Source
/-
  Key conversions, evaluated from the *extracted* expressions at fixed width.
  Overflow / underflow / a type mismatch / an unrecognised construct make evaluation fail, which
  the callers turn into a `fault` (in a checked build the source would panic, in a release build it
  would wrap and could construct `NonZero(0)`).
-/
namespace Lasso
open Source

/-- Join of the types of two operands: literals (`none`) adapt to the other side. -/
def unifyTy : Option Ty → Option Ty → Option (Option Ty)
  | none, t => some t
  | t, none => some t
  | some a, some b => if a = b then some (some a) else none

/-- Does value `v` fit type `t` (`none` = untyped literal, always fits). -/
def fitsTy (v : Nat) : Option Ty → Bool
  | none => true
  | some t => match t.modulus with
    | some m => v < m
    | none => false

/-- Fixed-width evaluation. `x : xt` is the value of the variable. -/
def evalK (x : Nat) (xt : Ty) : KExpr → Option (Nat × Option Ty)
  | .var => some (x, some xt)
  | .lit n => some (n, none)
  | .tmax t => match t.modulus with
    | some m => some (m - 1, some t)
    | none => none
  | .cast e t =>
    match evalK x xt e, t.modulus with
    | some (v, _), some m => some (v % m, some t)
    | _, _ => none
  | .add a b =>
    match evalK x xt a, evalK x xt b with
    | some (va, ta), some (vb, tb) =>
      match unifyTy ta tb with
      | some t => if fitsTy (va + vb) t then some (va + vb, t) else none
      | none => none
    | _, _ => none
  | .sub a b =>
    match evalK x xt a, evalK x xt b with
    | some (va, ta), some (vb, tb) =>
      match unifyTy ta tb with
      | some t => if vb ≤ va then some (va - vb, t) else none
      | none => none
    | _, _ => none
  | .unknown _ => none

def tyCompat (t : Option Ty) (want : Ty) : Bool :=
  match t with
  | none => true
  | some t => t = want

/-- `K::try_from_usize(i)`: `ok none` = `None`, `ok (some raw)` = `Some(key)` with raw NonZero value. -/
def tryFromUsize (spec : KeySpec) (i : Nat) : Out (Option Nat) :=
  match evalK i .usize spec.guardLhs, evalK i .usize spec.guardRhs with
  | some (l, tl), some (r, tr) =>
    match unifyTy tl tr with
    | none => .fault .unreachable
    | some _ =>
      let c : Option Bool := match spec.guardCmp with
        | .lt => some (decide (l < r))
        | .le => some (decide (l ≤ r))
        | .ne => some (decide (l ≠ r))
        | .other => none
      match c with
      | none => .fault .unreachable
      | some false => .ok none
      | some true =>
        match evalK i .usize spec.store with
        | some (v, t) =>
          -- `NonZero::new_unchecked(v)`: `v = 0` is UB; the value must have the backing type
          if tyCompat t spec.backing && fitsTy v (some spec.backing) && v != 0 then .ok (some v)
          else .fault .unreachable
        | none => .fault .unreachable
  | _, _ => .fault .unreachable

/-- `key.into_usize()` for the raw NonZero value `raw`. -/
def intoUsize (spec : KeySpec) (raw : Nat) : Out Nat :=
  match evalK raw spec.backing spec.load with
  | some (v, t) => if tyCompat t .usize && fitsTy v (some .usize) then .ok v else .fault .unreachable
  | none => .fault .unreachable

/-- Capacity `N = T::MAX` of the backing type. -/
def capacityOf (t : Ty) : Nat :=
  match t.modulus with
  | some m => m - 1
  | none => 0

/-- The closed form the four built-in keys are proved to equal (C11), and what every other layer
of the model uses as "the key type with capacity `N`". -/
def keyOfIndex (N : Nat) (i : Nat) : Option Nat := if i < N then some (i + 1) else none

def indexOfKey (raw : Nat) : Nat := raw - 1

end Lasso
