import LassoModel.Rodeo
import LassoModel.Extracted
/-
  Semantics of the effect sequence regenerated from `clone_strings_into` (`Extracted.cloneCopyEffects`); run over
  the registers of one iteration it is proved to be the model's `Rodeo.cloneInto` (`Lemmas/CloneInterp.lean`).
-/
namespace Lasso
open Lasso.Source

structure CReg where
  t : Table
  ss : List StrRef
  a : Arena
  stored : Option (Out (Arena × StrRef))
  ref : Option StrRef
  hash : Option UInt64
  vacant : Bool                 -- the probe found no entry (the `Vacant` arm is taken)
  pending : Option Bool         -- outcome of the key check: `some true` calls for the key-space error

def CReg.start (t : Table) (ss : List StrRef) (a : Arena) : CReg :=
  { t := t, ss := ss, a := a, stored := none, ref := none, hash := none, vacant := false, pending := none }

def Source.CEffect.run (env : Env) (N : Nat) (grow : Bool) (x : Bytes) (idx : Nat) (e : CEffect) (r : CReg) : Out CReg :=
  match e with
  | .store => .ok { r with stored := some (r.a.store x) }
  | .propagate =>
    match r.stored with
    | some (.ok (a', ref)) => .ok { r with a := a', ref := some ref, stored := none }
    | some (.err e) => .err e
    | some .panic => .panic
    | some (.fault f) => .fault f
    | none => .fault .unreachable
  | .stringsPush =>
    match r.ref with
    | some ref => .ok { r with ss := r.ss ++ [ref] }
    | none => .fault .unreachable
  | .hashOne => .ok { r with hash := some (env.hash x) }
  | .probe =>
    match tableFind env r.a.read r.ss r.t x with
    | .ok none => .ok { r with vacant := true }
    | .ok (some _) => .fault .unreachable        -- the `Occupied` arm: `unreachable!(..)`
    | .err e => .err e
    | .panic => .panic
    | .fault f => .fault f
  | .keyCheck .loopIndex => .ok { r with pending := some (keyOfIndex N idx).isNone }
  | .reject =>
    match r.pending with
    | some true => .err .keySpace
    | some false => .ok { r with pending := none }
    | none => .fault .unreachable
  | .tableInsert =>
    match r.hash, r.vacant, r.pending with
    | some h, true, none =>
      match Lasso.tableInsert r.t h idx grow (rehashFn env r.a.read r.ss) with
      | .ok t' => .ok { r with t := t' }
      | .err e => .err e
      | .panic => .panic
      | .fault f => .fault f
    | _, _, _ => .fault .unreachable
  | _ => .fault .unreachable

def runCEffects (env : Env) (N : Nat) (grow : Bool) (x : Bytes) (idx : Nat) : List CEffect → CReg → Out CReg
  | [], r => .ok r
  | e :: es, r =>
    match e.run env N grow x idx r with
    | .ok r' => runCEffects env N grow x idx es r'
    | .err e => .err e
    | .panic => .panic
    | .fault f => .fault f

def cloneLoopBody (effs : List CEffect) : List CEffect :=
  ((effs.dropWhile (· != .loopBegin)).drop 1).takeWhile (· != .loopEnd)

def interpCloneInto (env : Env) (N : Nat) (grow : Bool) (effs : List CEffect) :
    List Bytes → Nat → Table → List StrRef → Arena → Out (Table × List StrRef × Arena)
  | [], _, t, ss, a => .ok (t, ss, a)
  | x :: rest, idx, t, ss, a =>
    match runCEffects env N grow x idx (cloneLoopBody effs) (CReg.start t ss a) with
    | .ok r =>
      if r.pending.isNone && r.stored.isNone then interpCloneInto env N grow effs rest (idx + 1) r.t r.ss r.a
      else .fault .unreachable
    | .err e => .err e
    | .panic => .panic
    | .fault f => .fault f

end Lasso

namespace Lasso
open Lasso.Source

/-! ### `try_clone` and `try_clone_from` as wholes -/

/-- Registers of `try_clone` / `try_clone_from`: the source's contents, what has been computed so far, and the
target being built (table, vector, arena). -/
structure WReg where
  cs : List Bytes               -- the source's strings, in key order
  srcMax : Nat                  -- the source's memory limit
  total : Option Nat            -- `required_capacity`
  t : Table
  ss : List StrRef
  a : Option Arena              -- the arena being filled (`none` until it exists)
  pendingErr : Option (Out Unit) -- a fallible step's failure, waiting for its `?`
  copied : Bool

inductive WRes where
  | go (s : WReg)
  | ret (o : Out (Table × List StrRef × Arena))

def Source.CEffect.runW (env : Env) (N : Nat) (grow : Bool) (copyEffs : List CEffect) (target : Option Arena)
    (e : CEffect) (s : WReg) : WRes :=
  match e with
  | .sumLengths =>
    let total := sumNat (s.cs.map List.length)
    .go { s with total := some (if total = 0 then 4096 else total) }
  | .arenaSizedToContent =>
    match s.total with
    | some cap => .go { s with a := some (Arena.new cap (Nat.max s.srcMax cap)) }
    | none => .ret (.fault .unreachable)
  | .presizeExact => .go s
  | .cloneHasher => .go s
  | .takeHasher => .go s
  | .reserve => .go s
  | .clearTarget =>
    match target with
    | some a => .go { s with t := [], ss := [], a := some a.clear }
    | none => .ret (.fault .unreachable)
  | .copyAll =>
    match s.a with
    | none => .ret (.fault .unreachable)
    | some a =>
      match interpCloneInto env N grow copyEffs s.cs 0 s.t s.ss a with
      | .ok (t, ss, a') => .go { s with t := t, ss := ss, a := some a', copied := true }
      | .err e => .go { s with pendingErr := some (.err e) }
      | .panic => .ret .panic
      | .fault f => .ret (.fault f)
  | .propagate =>
    match s.pendingErr with
    | some (.err e) => .ret (.err e)
    | _ => .go s
  | _ => .ret (.fault .unreachable)

def runWEffects (env : Env) (N : Nat) (grow : Bool) (copyEffs : List CEffect) (target : Option Arena) :
    List CEffect → WReg → Out (Table × List StrRef × Arena)
  | [], s =>
    match s.a, s.copied, s.pendingErr with
    | some a, true, none => .ok (s.t, s.ss, a)
    | _, _, _ => .fault .unreachable
  | e :: es, s =>
    match e.runW env N grow copyEffs target s with
    | .go s' => runWEffects env N grow copyEffs target es s'
    | .ret o => o

/-- `try_clone` run from the regenerated sequences. -/
def interpTryClone (env : Env) (effs copyEffs : List CEffect) (r : Rodeo) (grow : Bool) : Out Rodeo :=
  match Rodeo.contents env r.arena.read r.strings with
  | none => .fault .oobIndex
  | some cs =>
    match runWEffects env r.N grow copyEffs none effs
        { cs := cs, srcMax := r.arena.max, total := none, t := [], ss := [], a := none, pendingErr := none, copied := false } with
    | .ok (t, ss, a) => .ok { table := t, strings := ss, arena := a, N := r.N }
    | .err e => .err e
    | .panic => .panic
    | .fault f => .fault f

/-- `try_clone_from` run from the regenerated sequences. -/
def interpTryCloneFrom (env : Env) (effs copyEffs : List CEffect) (target source : Rodeo) (grow : Bool) : Out Rodeo :=
  match Rodeo.contents env source.arena.read source.strings with
  | none => .fault .oobIndex
  | some cs =>
    match runWEffects env target.N grow copyEffs (some target.arena) effs
        { cs := cs, srcMax := source.arena.max, total := none, t := target.table, ss := target.strings, a := none,
          pendingErr := none, copied := false } with
    | .ok (t, ss, a) => .ok { table := t, strings := ss, arena := a, N := target.N }
    | .err e => .err e
    | .panic => .panic
    | .fault f => .fault f

end Lasso
