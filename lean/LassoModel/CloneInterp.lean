import LassoModel.Rodeo
import LassoModel.Extracted
/-
  Semantics of the effect sequence regenerated from `clone_strings_into` (`Extracted.cloneCopyEffects`); run over
  the registers of one iteration it is proved to be the model's `Rodeo.cloneInto` (`Lemmas/CloneInterp.lean`).
-/
namespace Lasso
open Lasso.Source

structure CReg where
  t : Table
  ss : List StrRef
  a : Arena
  stored : Option (Out (Arena × StrRef))
  ref : Option StrRef
  hash : Option UInt64
  vacant : Bool                 -- the probe found no entry (the `Vacant` arm is taken)
  pending : Option Bool         -- outcome of the key check: `some true` calls for the key-space error

def CReg.start (t : Table) (ss : List StrRef) (a : Arena) : CReg :=
  { t := t, ss := ss, a := a, stored := none, ref := none, hash := none, vacant := false, pending := none }

def Source.CEffect.run (env : Env) (N : Nat) (grow : Bool) (x : Bytes) (idx : Nat) (e : CEffect) (r : CReg) : Out CReg :=
  match e with
  | .store => .ok { r with stored := some (r.a.store x) }
  | .propagate =>
    match r.stored with
    | some (.ok (a', ref)) => .ok { r with a := a', ref := some ref, stored := none }
    | some (.err e) => .err e
    | some .panic => .panic
    | some (.fault f) => .fault f
    | none => .fault .unreachable
  | .stringsPush =>
    match r.ref with
    | some ref => .ok { r with ss := r.ss ++ [ref] }
    | none => .fault .unreachable
  | .hashOne => .ok { r with hash := some (env.hash x) }
  | .probe =>
    match tableFind env r.a.read r.ss r.t x with
    | .ok none => .ok { r with vacant := true }
    | .ok (some _) => .fault .unreachable        -- the `Occupied` arm: `unreachable!(..)`
    | .err e => .err e
    | .panic => .panic
    | .fault f => .fault f
  | .keyCheck .loopIndex => .ok { r with pending := some (keyOfIndex N idx).isNone }
  | .reject =>
    match r.pending with
    | some true => .err .keySpace
    | some false => .ok { r with pending := none }
    | none => .fault .unreachable
  | .tableInsert =>
    match r.hash, r.vacant, r.pending with
    | some h, true, none =>
      match Lasso.tableInsert r.t h idx grow (rehashFn env r.a.read r.ss) with
      | .ok t' => .ok { r with t := t' }
      | .err e => .err e
      | .panic => .panic
      | .fault f => .fault f
    | _, _, _ => .fault .unreachable
  | _ => .fault .unreachable

def runCEffects (env : Env) (N : Nat) (grow : Bool) (x : Bytes) (idx : Nat) : List CEffect → CReg → Out CReg
  | [], r => .ok r
  | e :: es, r =>
    match e.run env N grow x idx r with
    | .ok r' => runCEffects env N grow x idx es r'
    | .err e => .err e
    | .panic => .panic
    | .fault f => .fault f

def cloneLoopBody (effs : List CEffect) : List CEffect :=
  ((effs.dropWhile (· != .loopBegin)).drop 1).takeWhile (· != .loopEnd)

def interpCloneInto (env : Env) (N : Nat) (grow : Bool) (effs : List CEffect) :
    List Bytes → Nat → Table → List StrRef → Arena → Out (Table × List StrRef × Arena)
  | [], _, t, ss, a => .ok (t, ss, a)
  | x :: rest, idx, t, ss, a =>
    match runCEffects env N grow x idx (cloneLoopBody effs) (CReg.start t ss a) with
    | .ok r =>
      if r.pending.isNone && r.stored.isNone then interpCloneInto env N grow effs rest (idx + 1) r.t r.ss r.a
      else .fault .unreachable
    | .err e => .err e
    | .panic => .panic
    | .fault f => .fault f

end Lasso
