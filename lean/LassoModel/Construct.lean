import LassoModel.Views
import LassoModel.Ctor
/-
  The interners as built by any of their constructors: the configuration is interpreted from the regenerated
  constructor tables (`Ctor.lean`), the object is the closed form every other layer starts from.
-/
namespace Lasso
open Lasso.Source

def Rodeo.construct (N : Nat) (c : CtorName) (capB : BuilderName) (strings bytes : Nat)
    (limB : BuilderName) (limit : Nat) : Option Rodeo :=
  (ctorConfig .rodeo c capB strings bytes limB limit).map fun cfg => Rodeo.new N cfg.arenaBytes cfg.arenaMax

def Threaded.construct (N : Nat) (c : CtorName) (capB : BuilderName) (strings bytes : Nat)
    (limB : BuilderName) (limit : Nat) : Option Threaded :=
  (ctorConfig .threaded c capB strings bytes limB limit).map fun cfg => Threaded.new N cfg.arenaBytes cfg.arenaMax

end Lasso
