import LassoModel.Arena
import LassoModel.Keys
/-
  `Rodeo` (rodeo.rs): raw-entry string table + key->string vector + single-threaded arena.

  The table is hashbrown's raw-entry *contract*, not its layout: entries `(placement hash, key index)`;
  a lookup returns the first entry placed under the probe's hash for which the `eq` closure
  (compare the probe with the string the key indexes — `index_unchecked!`) holds; an insert appends
  and, when the growth oracle says so, re-places every entry under `rehash key` (the closure passed
  to `insert_with_hasher`).  Theorems quantify over all hash functions and all oracle sequences.
-/
namespace Lasso

/-- What the model is parametric in: the hasher and the pool of caller-owned `'static` strings. -/
structure Env where
  hash : Bytes → UInt64
  pool : List Bytes

abbrev Table := List (UInt64 × Nat)

/-- Content of a string reference, given how arena locations are read. -/
def contentOf (env : Env) (read : Loc → Option Bytes) : StrRef → Option Bytes
  | .arena loc => read loc
  | .static i => env.pool[i]?
  | .empty => some []

/-- Bytes of the string that key index `k` denotes in the vector `strings`. -/
def strAt (env : Env) (read : Loc → Option Bytes) (strings : List StrRef) (k : Nat) : Option Bytes :=
  match strings[k]? with
  | some r => contentOf env read r
  | none => none

/-- `raw_entry().from_hash(h, |key| probe == strings[key])`.  The `eq` closure indexes `strings`
unchecked; whichever entries hashbrown happens to probe, an out-of-range key anywhere in the table
is a latent out-of-bounds read, so the model faults on it. -/
def tableFind (env : Env) (read : Loc → Option Bytes) (strings : List StrRef) (t : Table) (x : Bytes) :
    Out (Option Nat) :=
  if t.all (fun e => decide (e.2 < strings.length)) then
    .ok ((t.find? (fun e => e.1 == env.hash x && strAt env read strings e.2 == some x)).map (·.2))
  else .fault .oobIndex

/-- Re-place every entry under the hash the closure computes for its key. -/
def rehashAll (rehash : Nat → Option UInt64) : Table → Option Table
  | [] => some []
  | e :: rest =>
    match rehash e.2, rehashAll rehash rest with
    | some h, some r => some ((h, e.2) :: r)
    | _, _ => none

/-- `insert_with_hasher(h, key, (), rehash)`; `grow` is the oracle "the table grows on this insert". -/
def tableInsert (t : Table) (h : UInt64) (k : Nat) (grow : Bool) (rehash : Nat → Option UInt64) : Out Table :=
  if grow then
    match rehashAll rehash t with
    | some t' => .ok (t' ++ [(h, k)])
    | none => .fault .oobIndex
  else .ok (t ++ [(h, k)])

/-- The rehash closure of `insert_string`: hash the string the key indexes (in the *new* vector). -/
def rehashFn (env : Env) (read : Loc → Option Bytes) (strings : List StrRef) (k : Nat) : Option UInt64 :=
  (strAt env read strings k).map env.hash

/-! ### Resolution paths over a key->string vector (shared by `Rodeo`, `RodeoReader`, `RodeoResolver`) -/

/-- `resolve` / `Index::index`: `assert!(idx < len)` then `get_unchecked`. -/
def resolveIn (env : Env) (read : Loc → Option Bytes) (strings : List StrRef) (k : Nat) : Out Bytes :=
  if k < strings.length then
    match strAt env read strings k with
    | some b => .ok b
    | none => .fault .oobIndex      -- a dangling reference
  else .panic

/-- `try_resolve`. -/
def tryResolveIn (env : Env) (read : Loc → Option Bytes) (strings : List StrRef) (k : Nat) : Out (Option Bytes) :=
  if k < strings.length then
    match strAt env read strings k with
    | some b => .ok (some b)
    | none => .fault .oobIndex
  else .ok none

/-- `resolve_unchecked`: `get_unchecked` with no bounds check. -/
def resolveUncheckedIn (env : Env) (read : Loc → Option Bytes) (strings : List StrRef) (k : Nat) : Out Bytes :=
  match strAt env read strings k with
  | some b => .ok b
  | none => .fault .oobIndex

/-- `iter()` collected: `(index, string)` for every position, keys rebuilt with `try_from_usize`
(`unreachable!()` when that fails). -/
def iterIn (env : Env) (read : Loc → Option Bytes) (N : Nat) : List StrRef → Nat → Out (List (Nat × Bytes))
  | [], _ => .ok []
  | r :: rest, i =>
    match keyOfIndex N i, contentOf env read r, iterIn env read N rest (i + 1) with
    | none, _, _ => .fault .unreachable
    | _, none, _ => .fault .oobIndex
    | some _, some b, .ok l => .ok ((i, b) :: l)
    | _, _, .err e => .err e
    | _, _, .panic => .panic
    | _, _, .fault f => .fault f

/-- The growth oracle the driver uses for `try_get_or_intern`: grow when the number of entries is a
power of two (roughly hashbrown's doubling). Theorems hold for *every* oracle value. -/
def growAt (n : Nat) : Bool := n &&& (n - 1) == 0

structure Rodeo where
  table : Table
  strings : List StrRef
  arena : Arena
  N : Nat                 -- capacity of the key type `K`
  deriving Inhabited

namespace Rodeo

def new (N cap max : Nat) : Rodeo := { table := [], strings := [], arena := Arena.new cap max, N := N }

def content (env : Env) (r : Rodeo) (ref : StrRef) : Option Bytes := contentOf env r.arena.read ref
def str (env : Env) (r : Rodeo) (k : Nat) : Option Bytes := strAt env r.arena.read r.strings k

/-- `Rodeo::get`. -/
def get (env : Env) (r : Rodeo) (x : Bytes) : Out (Option Nat) := tableFind env r.arena.read r.strings r.table x

/-- `Rodeo::try_get_or_intern`. -/
def tryIntern (env : Env) (r : Rodeo) (x : Bytes) (grow : Bool) : Out (Rodeo × Nat) :=
  match r.get env x with
  | .ok (some k) => .ok (r, k)
  | .ok none =>
    match keyOfIndex r.N r.strings.length with
    | none => .err .keySpace
    | some _ =>
      match r.arena.store x with
      | .ok (a', ref) =>
        let strings' := r.strings ++ [ref]
        match tableInsert r.table (env.hash x) r.strings.length grow (rehashFn env a'.read strings') with
        | .ok t' => .ok ({ r with table := t', strings := strings', arena := a' }, r.strings.length)
        | .err e => .err e
        | .panic => .panic
        | .fault f => .fault f
      | .err e => .err e
      | .panic => .panic
      | .fault f => .fault f
  | .err e => .err e
  | .panic => .panic
  | .fault f => .fault f

/-- `Rodeo::try_get_or_intern_static` for pool string `i`. -/
def tryInternStatic (env : Env) (r : Rodeo) (i : Nat) (grow : Bool) : Out (Rodeo × Nat) :=
  match env.pool[i]? with
  | none => .fault .unreachable   -- the harness never names a pool string that does not exist
  | some x =>
    match r.get env x with
    | .ok (some k) => .ok (r, k)
    | .ok none =>
      match keyOfIndex r.N r.strings.length with
      | none => .err .keySpace
      | some _ =>
        let strings' := r.strings ++ [.static i]
        match tableInsert r.table (env.hash x) r.strings.length grow (rehashFn env r.arena.read strings') with
        | .ok t' => .ok ({ r with table := t', strings := strings' }, r.strings.length)
        | .err e => .err e
        | .panic => .panic
        | .fault f => .fault f
    | .err e => .err e
    | .panic => .panic
    | .fault f => .fault f

/-- The infallible wrappers: `expect()` on the fallible call. -/
def expectOk : Out α → Out α
  | .err _ => .panic
  | o => o

def resolve (env : Env) (r : Rodeo) (k : Nat) : Out Bytes := resolveIn env r.arena.read r.strings k
def tryResolve (env : Env) (r : Rodeo) (k : Nat) : Out (Option Bytes) := tryResolveIn env r.arena.read r.strings k
def resolveUnchecked (env : Env) (r : Rodeo) (k : Nat) : Out Bytes := resolveUncheckedIn env r.arena.read r.strings k
def iter (env : Env) (r : Rodeo) : Out (List (Nat × Bytes)) := iterIn env r.arena.read r.N r.strings 0

def containsKey (r : Rodeo) (k : Nat) : Bool := k < r.strings.length
def len (r : Rodeo) : Nat := r.strings.length

def clear (r : Rodeo) : Rodeo := { r with table := [], strings := [], arena := r.arena.clear }

def setLimit (r : Rodeo) (m : Nat) : Rodeo := { r with arena := { r.arena with max := m } }

/-- All contents, in key order; `none` if some reference is dangling (never, by the invariant). -/
def contents (env : Env) (read : Loc → Option Bytes) : List StrRef → Option (List Bytes)
  | [] => some []
  | r :: rest =>
    match contentOf env read r, contents env read rest with
    | some b, some bs => some (b :: bs)
    | _, _ => none

/-- `clone_strings_into`: store, push, look up, insert — for every source string in order. -/
def cloneInto (env : Env) (N : Nat) (grow : Bool) :
    List Bytes → Nat → Table → List StrRef → Arena → Out (Table × List StrRef × Arena)
  | [], _, t, ss, a => .ok (t, ss, a)
  | x :: rest, idx, t, ss, a =>
    match a.store x with
    | .ok (a', ref) =>
      let ss' := ss ++ [ref]
      match tableFind env a'.read ss' t x with
      | .ok none =>
        match keyOfIndex N idx with
        | none => .err .keySpace
        | some _ =>
          match tableInsert t (env.hash x) idx grow (rehashFn env a'.read ss') with
          | .ok t' => cloneInto env N grow rest (idx + 1) t' ss' a'
          | .err e => .err e
          | .panic => .panic
          | .fault f => .fault f
      | .ok (some _) => .fault .unreachable   -- "keys should be unique within cloned Rodeos"
      | .err e => .err e
      | .panic => .panic
      | .fault f => .fault f
    | .err e => .err e
    | .panic => .panic
    | .fault f => .fault f

/-- `Rodeo::try_clone`: a fresh arena of exactly `Σ len` bytes (4096 if that is 0) under the limit
`max(limit, Σ len)`. -/
def tryClone (env : Env) (r : Rodeo) (grow : Bool) : Out Rodeo :=
  match contents env r.arena.read r.strings with
  | none => .fault .oobIndex
  | some cs =>
    let total := sumNat (cs.map List.length)
    let cap := if total = 0 then 4096 else total
    let arena := Arena.new cap (Nat.max r.arena.max cap)
    match cloneInto env r.N grow cs 0 [] [] arena with
    | .ok (t, ss, a) => .ok { table := t, strings := ss, arena := a, N := r.N }
    | .err e => .err e
    | .panic => .panic
    | .fault f => .fault f

/-- `Rodeo::try_clone_from`: clear the target, then re-store into *its* arena under *its* limit.
On failure the source documents the target as unspecified; the model returns the error only. -/
def tryCloneFrom (env : Env) (target source : Rodeo) (grow : Bool) : Out Rodeo :=
  match contents env source.arena.read source.strings with
  | none => .fault .oobIndex
  | some cs =>
    let t0 := target.clear
    match cloneInto env t0.N grow cs 0 [] [] t0.arena with
    | .ok (t, ss, a) => .ok { table := t, strings := ss, arena := a, N := t0.N }
    | .err e => .err e
    | .panic => .panic
    | .fault f => .fault f

end Rodeo
end Lasso
