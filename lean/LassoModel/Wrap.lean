import LassoModel.Source
/-
  The trait layer (`interface/*.rs`).  The meaning of "call method `m` through wrapper route `r`" is
  *defined* as: follow the extracted forwarding table layer by layer down to an inherent method of
  the base type, and perform that.  The table is regenerated from the source on every run.
-/
namespace Lasso.Wrap
open Lasso.Source

/-- Route layers as written in the protocol -> wrapper name in the forwarding table. -/
def layerWrapper : String → Option String
  | "box" => some "Box"
  | "boxdyn" => some "Box"        -- `Box<dyn Trait>`: the Box impl, then the base type's impl through the vtable
  | "mut" => some "&mut"
  | "ref" => some "&"
  | "tref" => some "&ThreadedRodeo"
  | _ => none

/-- Protocol operation -> trait method. -/
def opToMethod : String → Option String
  | "intern" => some "try_get_or_intern"
  | "internP" => some "get_or_intern"
  | "internS" => some "try_get_or_intern_static"
  | "internSP" => some "get_or_intern_static"
  | "get" => some "get"
  | "contains" => some "contains"
  | "resolve" => some "resolve"
  | "tryResolve" => some "try_resolve"
  | "resolveU" => some "resolve_unchecked"
  | "containsKey" => some "contains_key"
  | "len" => some "len"
  | "isEmpty" => some "is_empty"
  | "intoReader" => some "into_reader"
  | "intoResolver" => some "into_resolver"
  | _ => none

/-- Inherent method -> protocol operation. -/
def methodToOp : String → Option String
  | "try_get_or_intern" => some "intern"
  | "get_or_intern" => some "internP"
  | "try_get_or_intern_static" => some "internS"
  | "get_or_intern_static" => some "internSP"
  | "get" => some "get"
  | "contains" => some "contains"
  | "resolve" => some "resolve"
  | "try_resolve" => some "tryResolve"
  | "resolve_unchecked" => some "resolveU"
  | "contains_key" => some "containsKey"
  | "len" => some "len"
  | "is_empty" => some "isEmpty"
  | "into_reader" => some "intoReader"
  | "into_resolver" => some "intoResolver"
  | _ => none

def find (fw : List Forward) (wrapper method : String) : Option Forward :=
  fw.find? (fun f => f.wrapper == wrapper && f.method == method)

/-- Follow method `m` through the layers (outermost first, the base type last); the result is the
inherent method of the base type that ends up being called, or `none` when some layer does not
forward in a recognised way. -/
def resolve (fw : List Forward) : List String → String → Option String
  | [], _ => none
  | [base], m =>
    match find fw base m with
    | some f =>
      -- inherent methods take priority over trait methods in method resolution, so `self.m(..)`,
      -- `(*self).m(..)` and `Base::m(..)` on the base type all name the inherent method
      if f.calleeKind == "self" || f.calleeKind == "deref1" || f.calleeKind == "inherent-ufcs:" ++ base
      then some f.callee else none
    | none => none
  | layer :: rest, m =>
    match layerWrapper layer with
    | none => none
    | some w =>
      match find fw w m with
      | none => none
      | some f =>
        if f.calleeKind == "deref" || f.calleeKind == "ufcs-trait" then resolve fw rest f.callee
        else if f.calleeKind.startsWith "inherent-ufcs:" then
          (if rest == [(f.calleeKind.drop 14).toString] then some f.callee else none)
        else none

/-- `is_empty` is a provided method (`self.len() == 0`) that no impl overrides: it is whatever `len`
resolves to, compared with 0. -/
def resolveMethod (fw : List Forward) (layers : List String) (m : String) : Option String :=
  match resolve fw layers m with
  | some r => some r
  | none =>
    if m == "is_empty" then
      match resolve fw layers "len" with
      | some "len" => some "is_empty"
      | _ => none
    else none

/-- `via <route> <op> <args…>` -> the inherent operation it denotes. -/
def resolveVia (fw : List Forward) (route : String) (toks : List String) : Option (List String) :=
  match toks with
  | [] => none
  | op :: args =>
    match opToMethod op with
    | none => none
    | some m =>
      match resolveMethod fw (route.splitOn "+") m with
      | none => none
      | some inh =>
        match methodToOp inh with
        | some op' => some (op' :: args)
        | none => none

end Lasso.Wrap
