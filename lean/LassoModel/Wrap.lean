import LassoModel.Source
/-
  The trait layer (`interface/*.rs`).  The meaning of "call method `m` through wrapper route `r`" is
  *defined* as: follow the extracted forwarding table layer by layer down to an inherent method of
  the base type, and perform that.  The table is regenerated from the source on every run.
-/
namespace Lasso.Wrap
open Lasso.Source

/-- Route layers as written in the protocol. `boxdyn` (`Box<dyn Trait>`) is the `Box` impl followed
by the base type's impl through the vtable. -/
def layerOfToken : String → Option Wrapper
  | "box" => some .box
  | "boxdyn" => some .box
  | "mut" => some .refMut
  | "ref" => some .ref
  | "tref" => some .threadedRef
  | "Rodeo" => some .rodeo
  | "ThreadedRodeo" => some .threaded
  | "RodeoReader" => some .reader
  | "RodeoResolver" => some .resolver
  | _ => none

/-- Protocol operation -> trait method. -/
def opToMethod : String → Option Method
  | "intern" => some .tryGetOrIntern
  | "internP" => some .getOrIntern
  | "internS" => some .tryGetOrInternStatic
  | "internSP" => some .getOrInternStatic
  | "get" => some .get
  | "contains" => some .contains
  | "resolve" => some .resolve
  | "tryResolve" => some .tryResolve
  | "resolveU" => some .resolveUnchecked
  | "containsKey" => some .containsKey
  | "len" => some .len
  | "isEmpty" => some .isEmpty
  | "intoReader" => some .intoReader
  | "intoResolver" => some .intoResolver
  | _ => none

/-- Inherent method -> protocol operation. -/
def methodToOp : Method → Option String
  | .tryGetOrIntern => some "intern"
  | .getOrIntern => some "internP"
  | .tryGetOrInternStatic => some "internS"
  | .getOrInternStatic => some "internSP"
  | .get => some "get"
  | .contains => some "contains"
  | .resolve => some "resolve"
  | .tryResolve => some "tryResolve"
  | .resolveUnchecked => some "resolveU"
  | .containsKey => some "containsKey"
  | .len => some "len"
  | .isEmpty => some "isEmpty"
  | .intoReader => some "intoReader"
  | .intoResolver => some "intoResolver"
  | _ => none

def find (fw : List Forward) (wrapper : Wrapper) (method : Method) : Option Forward :=
  fw.find? (fun f => f.wrapper == wrapper && f.method == method)

def isBase : Wrapper → Bool
  | .rodeo | .threaded | .reader | .resolver => true
  | _ => false

/-- Follow method `m` through the layers (outermost first, the base type last); the result is the
inherent method of the base type that ends up being called, or `none` when some layer does not
forward in a recognised way. -/
def resolve (fw : List Forward) : List Wrapper → Method → Option Method
  | [], _ => none
  | [base], m =>
    if !isBase base then none else
    match find fw base m with
    | some f =>
      -- inherent methods take priority over trait methods in method resolution, so `self.m(..)`,
      -- `(*self).m(..)` and `Base::m(..)` on the base type all name the inherent method
      if f.calleeKind == .self_ || f.calleeKind == .deref1 || f.calleeKind == .inherentUfcs base
      then some f.callee else none
    | none => none
  | layer :: rest, m =>
    if isBase layer then none else
    match find fw layer m with
    | none => none
    | some f =>
      match f.calleeKind with
      | .deref => resolve fw rest f.callee
      | .ufcsTrait => resolve fw rest f.callee
      | .inherentUfcs w => if rest == [w] then some f.callee else none
      | _ => none

/-- `is_empty` is a provided method (`self.len() == 0`) that no impl overrides: it is whatever `len`
resolves to, compared with 0. -/
def resolveMethod (fw : List Forward) (layers : List Wrapper) (m : Method) : Option Method :=
  match resolve fw layers m with
  | some r => some r
  | none =>
    if m == .isEmpty then
      match resolve fw layers .len with
      | some .len => some .isEmpty
      | _ => none
    else none

def parseRoute (route : String) : Option (List Wrapper) := (route.splitOn "+").mapM layerOfToken

/-- `via <route> <op> <args…>` -> the inherent operation it denotes. -/
def resolveVia (fw : List Forward) (route : String) (toks : List String) : Option (List String) :=
  match toks with
  | [] => none
  | op :: args =>
    match opToMethod op, parseRoute route with
    | some m, some layers =>
      match resolveMethod fw layers m with
      | none => none
      | some inh =>
        match methodToOp inh with
        | some op' => some (op' :: args)
        | none => none
    | _, _ => none

end Lasso.Wrap
