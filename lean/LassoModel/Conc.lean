import LassoModel.Views
/-
  Small-step interleaving semantics of `ThreadedRodeo` (threaded_rodeo.rs) at the granularity of the
  schedule points placed in `try_get_or_intern` / `try_get_or_intern_static`:

      call start → [fast-path get] → BeforeShardLock/BeforeEntry → [lock, re-check]
        → BeforeStore → [arena.store_str]            (copying path only)
        → BeforeKeyFetch → [key.fetch_add, try_from_usize]
        → BeforeStringsInsert → [strings.insert] → BeforeMapInsert → [map insert, unlock]

  One `step` performs exactly the code between two consecutive points of one thread.  At this
  granularity `store_str` is one step (its own interleavings are the subject of `ConcArena.lean`), so
  the sequential arena model is exact here.  Strings are identified with their contents (that
  contents are stable is C01/C05).  The two `DashMap`s are association lists; a shard of the
  string->key map is write-locked by at most one thread, readers block on it.
-/
namespace Lasso.Conc
open Lasso

inductive Call where
  | intern (x : Bytes)
  | internStatic (x : Bytes)
  | get (x : Bytes)
  | tryResolve (k : Nat)
  | containsKey (k : Nat)
  | len
  deriving Repr, Inhabited, DecidableEq

inductive Res where
  | key (k : Nat)             -- Ok(key)
  | err (e : Err)
  | optKey (o : Option Nat)
  | optStr (o : Option Bytes)
  | bool (b : Bool)
  | num (n : Nat)
  deriving Repr, Inhabited, DecidableEq

/-- Where a thread is inside an interning call. -/
inductive PC where
  | idle
  | wantLock (x : Bytes) (st : Bool)            -- fast path missed; about to take the shard write lock
  | locked (x : Bytes) (needStore : Bool)       -- holds the lock, saw `x` vacant
  | haveKey (x : Bytes) (k : Nat)               -- fetched index `k` from the counter (valid key)
  | inserted (x : Bytes) (k : Nat)              -- `(k, x)` is in the key->string map, not yet in string->key
  deriving Repr, Inhabited, DecidableEq

structure Thread where
  pc : PC
  todo : List Call
  deriving Repr, Inhabited

structure CS where
  map : List (Bytes × Nat)        -- string -> key
  strs : List (Nat × Bytes)       -- key -> string
  ctr : Nat
  arena : LArena
  locks : List (Nat × Nat)        -- (shard, owner thread) of held write locks
  ts : List Thread
  log : List (Nat × Call × Res)   -- completed calls: thread, call, result (most recent first)
  deriving Inhabited

def lockOwner (locks : List (Nat × Nat)) (shard : Nat) : Option Nat :=
  (locks.find? (fun l => l.1 == shard)).map (·.2)

def mapGet (m : List (Bytes × Nat)) (x : Bytes) : Option Nat :=
  (m.find? (fun e => e.1 == x)).map (·.2)

def strGet (s : List (Nat × Bytes)) (k : Nat) : Option Bytes :=
  (s.find? (fun e => e.1 == k)).map (·.2)

def strInsert (k : Nat) (x : Bytes) (s : List (Nat × Bytes)) : List (Nat × Bytes) :=
  (k, x) :: s.filter (fun e => !(e.1 == k))

def setThread (s : CS) (t : Nat) (th : Thread) : CS := { s with ts := s.ts.set t th }

/-- Finish the current call of thread `t` with result `r`. -/
def finish (s : CS) (t : Nat) (th : Thread) (c : Call) (r : Res) : CS :=
  { s with ts := s.ts.set t { pc := .idle, todo := th.todo }, log := (t, c, r) :: s.log }

def unlock (locks : List (Nat × Nat)) (shard : Nat) : List (Nat × Nat) := locks.filter (fun l => !(l.1 == shard))

/-- The call a busy thread is executing (for the log). -/
def callOf (x : Bytes) (st : Bool) : Call := if st then .internStatic x else .intern x

/-- One step of thread `t`; `none` when it is blocked (a shard lock it needs is held by another
thread), finished, or does not exist. `sh` is DashMap's shard function, `N` the key capacity. -/
def step (sh : Bytes → Nat) (N : Nat) (s : CS) (t : Nat) : Option CS :=
  match s.ts[t]? with
  | none => none
  | some th =>
    match th.pc with
    | .idle =>
      match th.todo with
      | [] => none
      | c :: rest =>
        let th' : Thread := { pc := .idle, todo := rest }
        match c with
        | .get x =>
          -- `map.get` takes the shard's read lock
          if (lockOwner s.locks (sh x)).isSome then none
          else some (finish s t th' c (.optKey (mapGet s.map x)))
        | .tryResolve k => some (finish s t th' c (.optStr (strGet s.strs k)))
        | .containsKey k => some (finish s t th' c (.bool (strGet s.strs k).isSome))
        | .len => some (finish s t th' c (.num s.strs.length))
        | .intern x =>
          if (lockOwner s.locks (sh x)).isSome then none
          else match mapGet s.map x with
            | some k => some (finish s t th' c (.key k))
            | none => some (setThread s t { pc := .wantLock x false, todo := rest })
        | .internStatic x =>
          if (lockOwner s.locks (sh x)).isSome then none
          else match mapGet s.map x with
            | some k => some (finish s t th' c (.key k))
            | none => some (setThread s t { pc := .wantLock x true, todo := rest })
    | .wantLock x st =>
      -- take the write lock, then look again
      if (lockOwner s.locks (sh x)).isSome then none
      else match mapGet s.map x with
        | some k => some (finish s t th (callOf x st) (.key k))
        | none => some { s with locks := (sh x, t) :: s.locks, ts := s.ts.set t { th with pc := .locked x (!st) } }
    | .locked x true =>
      -- copying path: `arena.store_str(x)?` — on failure the guard is dropped and the error returned
      match s.arena.store x with
      | .ok (a', _) => some { s with arena := a', ts := s.ts.set t { th with pc := .locked x false } }
      | .err e => some { finish s t th (.intern x) (.err e) with locks := unlock s.locks (sh x) }
      | _ => none
    | .locked x false =>
      -- `key.fetch_add(1)`, `K::try_from_usize(..)?`
      let idx := s.ctr
      match keyOfIndex N idx with
      | some _ => some { s with ctr := s.ctr + 1, ts := s.ts.set t { th with pc := .haveKey x idx } }
      | none =>
        let s1 := { s with ctr := s.ctr + 1 }
        -- which entry point it was does not matter for the result: record it as the copying one
        some { finish s1 t th (.intern x) (.err .keySpace) with locks := unlock s.locks (sh x) }
    | .haveKey x k =>
      some { s with strs := strInsert k x s.strs, ts := s.ts.set t { th with pc := .inserted x k } }
    | .inserted x k =>
      some { finish s t th (.intern x) (.key k) with map := s.map ++ [(x, k)], locks := unlock s.locks (sh x) }

def run (sh : Bytes → Nat) (N : Nat) (s : CS) : List Nat → CS
  | [] => s
  | t :: rest =>
    match step sh N s t with
    | some s' => run sh N s' rest
    | none => run sh N s rest      -- a schedule entry naming a blocked or finished thread is skipped

def init (cap max : Nat) (programs : List (List Call)) : CS :=
  { map := [], strs := [], ctr := 0, arena := LArena.new cap max, locks := [],
    ts := programs.map fun p => { pc := .idle, todo := p }, log := [] }

def quiescent (s : CS) : Bool := s.ts.all fun th => th.pc == .idle && th.todo.isEmpty

def enabled (sh : Bytes → Nat) (N : Nat) (s : CS) : List Nat :=
  (List.range s.ts.length).filter fun t => (step sh N s t).isSome

end Lasso.Conc
