/-
  Basic vocabulary of the lasso model.

  Everything in `LassoModel` is executable and imports nothing outside Lean core, so that the
  line-protocol driver (`Main.lean`) links as a native executable.
-/
namespace Lasso

/-- Strings are modelled at the byte level (the arena copies bytes, `str == str` compares bytes). -/
abbrev Bytes := List UInt8

/-- `LassoErrorKind`. `failedAlloc` is never produced by the model (allocation never fails). -/
inductive Err where
  | memoryLimit
  | keySpace
  | failedAlloc
  | serde        -- a deserialiser returned `Err(..)` (not a `LassoError`)
  deriving DecidableEq, Repr, Inhabited

/-- What is undefined behaviour (or an internal `unreachable!`/`debug_assert!`/`unwrap` on an
internal invariant) in the real code.  Every *unchecked* operation of the source is modelled as a
checked one that yields a `Fault` when the source's unstated precondition is false. -/
inductive Fault where
  | oobWrite      -- `push_slice` past the end of a block
  | oobIndex      -- `index_unchecked!` / `get_unchecked` / `index_unchecked_mut!` out of range
  | unreachable   -- `unreachable!()` reached
  | unwrapNone    -- `unwrap()`/`expect()` on an internal `None` that is not a documented panic
  deriving DecidableEq, Repr, Inhabited

/-- Result of one API call. `panic` is reserved for the *documented* panics. -/
inductive Out (α : Type) where
  | ok (a : α)
  | err (e : Err)
  | panic
  | fault (f : Fault)
  deriving Repr, DecidableEq

instance [Inhabited α] : Inhabited (Out α) := ⟨.panic⟩

namespace Out
def map (f : α → β) : Out α → Out β
  | ok a => ok (f a)
  | err e => err e
  | panic => panic
  | fault f => fault f

def bind (x : Out α) (f : α → Out β) : Out β :=
  match x with
  | ok a => f a
  | err e => err e
  | panic => panic
  | fault f => fault f

def isFault : Out α → Bool
  | fault _ => true
  | _ => false

def isOk : Out α → Bool
  | ok _ => true
  | _ => false
end Out

/-- A location inside an arena: block id, offset, length. -/
structure Loc where
  bid : Nat
  off : Nat
  len : Nat
  deriving DecidableEq, Repr, Inhabited

/-- Provenance of a string held by a container. -/
inductive StrRef where
  | arena (loc : Loc)     -- copied into this container's arena
  | static (i : Nat)      -- the caller's own `&'static str` (index into the static pool)
  | empty                 -- the literal `""` returned by `store_str("")`
  deriving DecidableEq, Repr, Inhabited

def sumNat : List Nat → Nat
  | [] => 0
  | x :: xs => x + sumNat xs

end Lasso
