import LassoModel.Source
/-
  A small auto-trait solver over the extracted struct definitions and manual marker impls:
  a type is `Send`/`Sync` if a manual impl for it exists and its bounds hold, else (no manual impl)
  if all its fields are, with a table for the std / dashmap / hashbrown leaf types.
  Trusted to be rustc's rule; validated against rustc by the probe matrix of the C19 check.
-/
namespace Lasso.Markers
open Lasso.Source

abbrev Asg := TParam → Marker → Bool

/-- Leaf types. `args` already evaluated for both markers: `(send, sync)` per argument. -/
def leaf (c : TCon) (m : Marker) (args : List (Bool × Bool)) : Bool :=
  let send (i : Nat) := (args.getD i (true, true)).1
  let sync (i : Nat) := (args.getD i (true, true)).2
  match c, m with
  | .hashMap, .send => send 0 && send 1 && send 2
  | .hashMap, .sync => sync 0 && sync 1 && sync 2
  -- dashmap 6: shards are `RwLock<HashMap<K, SharedValue<V>>>`
  | .dashMap, .send => send 0 && send 1 && send 2
  | .dashMap, .sync => send 0 && sync 0 && send 1 && sync 1 && sync 2
  | .vec, .send => send 0
  | .vec, .sync => sync 0
  | .phantomData, .send => send 0
  | .phantomData, .sync => sync 0
  | .nonNull, _ => false
  | .atomicUsize, _ => true
  | .atomicPtr, _ => true
  | .nonZero, _ => true
  | .int, _ => true
  | .str, _ => true
  | .unit, _ => true
  | _, _ => false            -- unknown type: assume nothing

def paramIndex (params : List TParam) (p : TParam) : Option Nat := params.findIdx? (· == p)

/-- Does `t` implement marker `m`, under the assignment `asg` for the free parameters. -/
def holds (defs : List StructDef) (impls : List MarkerImpl) : Nat → Asg → Marker → TyE → Bool
  | 0, _, _, _ => false
  | fuel + 1, asg, m, t =>
    match t with
    | .param p => asg p m
    | .ref t' => holds defs impls fuel asg .sync t'        -- `&T: Send ⇔ T: Sync`, `&T: Sync ⇔ T: Sync`
    | .array t' => holds defs impls fuel asg m t'
    | .app c args =>
      match impls.find? (fun i => i.ty == c && i.trait_ == m) with
      | some imp =>
        -- bounds talk about the impl's own parameters, instantiated by `args`
        imp.bounds.all fun (p, bm) =>
          match paramIndex imp.params p with
          | some i => match args[i]? with
            | some a => holds defs impls fuel asg bm a
            | none => false
          | none => false
      | none =>
        match defs.find? (fun d => d.name == c) with
        | some d =>
          -- structural: every field, with the struct's parameters instantiated by `args`
          let asg' : Asg := fun p bm =>
            match paramIndex d.params p with
            | some i => match args[i]? with
              | some a => holds defs impls fuel asg bm a
              | none => false
            | none => false
          d.fields.all fun f => holds defs impls fuel asg' m f
        | none =>
          leaf c m (args.map fun a => (holds defs impls fuel asg .send a, holds defs impls fuel asg .sync a))

/-- The four containers applied to their own parameters. -/
def containerTy : TCon → TyE
  | .resolver => .app .resolver [.param .K]
  | c => .app c [.param .K, .param .S]

def hasS : TCon → Bool
  | .resolver => false
  | _ => true

/-- `K`/`S` as described by four booleans. -/
def asgOf (sendK syncK sendS syncS : Bool) : Asg := fun p m =>
  match p, m with
  | .K, .send => sendK
  | .K, .sync => syncK
  | .S, .send => sendS
  | .S, .sync => syncS
  | _, _ => false

end Lasso.Markers
