import LassoModel.Keys
import LassoModel.Extracted
/-
  Line-protocol driver: one operation per input line, one answer per output line.
  The definitions executed here are the ones the theorems in `LassoProofs` are about.
-/
namespace Lasso.Driver
open Lasso Lasso.Source

structure DState where
  dummy : Nat := 0

def findSpec (name : String) : Option KeySpec :=
  Extracted.keySpecs.find? (fun s => s.name == name)

def showFault : Fault → String
  | .oobWrite => "fault oobWrite"
  | .oobIndex => "fault oobIndex"
  | .unreachable => "fault unreachable"
  | .unwrapNone => "fault unwrapNone"

def step (st : DState) (line : String) : DState × String :=
  match line.trimAscii.toString.splitOn " " with
  | ["keyFrom", name, i] =>
    match findSpec name, i.toNat? with
    | some spec, some i =>
      match tryFromUsize spec i with
      | .ok (some raw) => (st, s!"some {raw}")
      | .ok none => (st, "none")
      | _ => (st, "fault")
    | _, _ => (st, "bad-op")
  | ["keyInto", name, raw] =>
    match findSpec name, raw.toNat? with
    | some spec, some raw =>
      match intoUsize spec raw with
      | .ok v => (st, s!"{v}")
      | _ => (st, "fault")
    | _, _ => (st, "bad-op")
  | _ => (st, "bad-op")

end Lasso.Driver
