import LassoModel.Keys
import LassoModel.Hash
import LassoModel.Serde
import LassoModel.Wrap
import LassoModel.Markers
import LassoModel.Borrow
import LassoModel.Conc
import LassoModel.ConcArena
import LassoModel.Extracted
import LassoModel.Construct
/-
  Line-protocol driver: one operation per input line, one answer per output line.
  The definitions executed here are the ones the theorems in `LassoProofs` are about.
-/
namespace Lasso.Driver
open Lasso Lasso.Source

inductive Obj where
  | rodeo (r : Rodeo)
  | threaded (t : Threaded)
  | reader (r : Reader) (unordered : Bool)
  | resolver (r : Resolver) (unordered : Bool)
  | gone
  deriving Inhabited

/-- Scenario of the concurrent correspondence runs. -/
structure CScenario where
  N : Nat := 255
  cap : Nat := 8
  max : Nat := 18446744073709551615
  programs : List (List Conc.Call) := []
  shards : List (Bytes × Nat) := []
  prefill : List Bytes := []

structure DState where
  env : Env := { hash := fnv1a, pool := [] }
  N : Nat := 4294967295
  slots : List Obj := []
  conc : CScenario := {}

/-! ### parsing / printing -/

def hexDigit (c : Char) : Option Nat :=
  if '0' ≤ c ∧ c ≤ '9' then some (c.toNat - '0'.toNat)
  else if 'a' ≤ c ∧ c ≤ 'f' then some (c.toNat - 'a'.toNat + 10)
  else none

def unhexChars : List Char → Option Bytes
  | [] => some []
  | [_] => none
  | a :: b :: r =>
    match hexDigit a, hexDigit b, unhexChars r with
    | some x, some y, some rest => some (UInt8.ofNat (x * 16 + y) :: rest)
    | _, _, _ => none

def unhex (s : String) : Option Bytes := if s == "-" then some [] else unhexChars s.toList

def hexNib (n : Nat) : Char := if n < 10 then Char.ofNat (n + '0'.toNat) else Char.ofNat (n - 10 + 'a'.toNat)

def hex (b : Bytes) : String :=
  if b.isEmpty then "-" else String.ofList (b.flatMap fun x => [hexNib (x.toNat / 16), hexNib (x.toNat % 16)])

def unhexList (s : String) : Option (List Bytes) :=
  if s == "_" then some [] else (s.splitOn ",").mapM unhex

def parseDocMap (s : String) : Option (List (Bytes × Nat)) :=
  if s == "_" then some [] else
  (s.splitOn ",").mapM fun e => match e.splitOn "=" with
    | [h, r] => match unhex h, r.toNat? with
      | some b, some n => some (b, n)
      | _, _ => none
    | _ => none

def joinWith (sep : String) (l : List String) : String := sep.intercalate l

def showList (l : List String) : String := if l.isEmpty then "_" else joinWith "," l

def capacityOfName (name : String) : Option Nat :=
  match name with
  | "spur" => some 4294967295
  | "mini" => some 65535
  | "micro" => some 255
  | "large" => some 18446744073709551615
  | _ => match name.splitOn ":" with
    | ["small", n] => n.toNat?
    | _ => none

def showErr : Err → String
  | .memoryLimit => "err mem"
  | .keySpace => "err keys"
  | .failedAlloc => "err alloc"
  | .serde => "err serde"

def showOut (f : α → String) : Out α → String
  | .ok a => f a
  | .err e => showErr e
  | .panic => "panic"
  | .fault _ => "fault"

def showLimit (n : Nat) : String := if n ≥ usizeMax then "max" else toString n

/-! ### uniform access to the four containers -/

namespace Obj

def read : Obj → Loc → Option Bytes
  | .rodeo r, l => r.arena.read l
  | .threaded t, l => t.arena.read l
  | .reader r _, l => r.arena.read l
  | .resolver r _, l => r.arena.read l
  | .gone, _ => none

def blocks : Obj → List Bucket
  | .rodeo r => r.arena.vecOrder
  | .threaded t => t.arena.buckets
  | .reader r _ => r.arena.blocks
  | .resolver r _ => r.arena.blocks
  | .gone => []

def isUnordered : Obj → Bool
  | .threaded t => t.unordered
  | .reader _ u => u
  | .resolver _ u => u
  | _ => false

/-- key index -> reference, for every kind -/
def refAt : Obj → Nat → Option StrRef
  | .rodeo r, k => r.strings[k]?
  | .threaded t, k => t.resolveRef k
  | .reader r _, k => r.strings[k]?
  | .resolver r _, k => r.strings[k]?
  | .gone, _ => none

def len : Obj → Nat
  | .rodeo r => r.strings.length
  | .threaded t => t.strs.length
  | .reader r _ => r.strings.length
  | .resolver r _ => r.strings.length
  | .gone => 0

/-- `(key, ref)` pairs in canonical (key) order -/
def pairs : Obj → List (Nat × StrRef)
  | .rodeo r => r.strings.zipIdx.map (fun (s, i) => (i, s))
  | .threaded t => t.sortedStrs
  | .reader r _ => r.strings.zipIdx.map (fun (s, i) => (i, s))
  | .resolver r _ => r.strings.zipIdx.map (fun (s, i) => (i, s))
  | .gone => []

def usage : Obj → Nat
  | .rodeo r => r.arena.usage
  | .threaded t => t.arena.usage
  | .reader r _ => r.arena.usage
  | .resolver r _ => r.arena.usage
  | .gone => 0

def maxMem : Obj → Nat
  | .rodeo r => r.arena.max
  | .threaded t => t.arena.max
  | _ => 0

def N : Obj → Nat
  | .rodeo r => r.N
  | .threaded t => t.N
  | .reader r _ => r.N
  | .resolver r _ => r.N
  | .gone => 0

end Obj

def blockPos (bs : List Bucket) (id : Nat) : Option Nat := bs.findIdx? (fun b => b.id == id)

def showProv (o : Obj) : StrRef → String
  | .arena loc =>
    match blockPos o.blocks loc.bid with
    | some p => if o.isUnordered then s!"A{p}:?" else s!"A{p}:{loc.off}"
    | none => "A?"
  | .static i => s!"S{i}"
  | .empty => "E"

def contentIn (env : Env) (o : Obj) (ref : StrRef) : Option Bytes := contentOf env o.read ref

/-- `<hex> <prov>` of a reference, or `none` when it dangles (a fault). -/
def showRef (env : Env) (o : Obj) (ref : StrRef) : Option String :=
  match contentIn env o ref with
  | some b => some s!"{hex b} {showProv o ref}"
  | none => none

def getSlot (st : DState) (i : Nat) : Obj := st.slots.getD i .gone

def setSlot (st : DState) (i : Nat) (o : Obj) : DState :=
  let padded := if i < st.slots.length then st.slots else st.slots ++ List.replicate (i + 1 - st.slots.length) Obj.gone
  { st with slots := padded.set i o }

/-! ### operations -/

def opIntern (st : DState) (s : Nat) (x : Bytes) (infallible : Bool) : DState × String :=
  match getSlot st s with
  | .rodeo r =>
    let res := r.tryIntern st.env x (growAt r.strings.length)
    let res := if infallible then Rodeo.expectOk res else res
    match res with
    | .ok (r', k) => (setSlot st s (.rodeo r'), s!"ok {k}")
    | o => (st, showOut (fun _ => "") o)
  | .threaded t =>
    let (t', res) := t.tryIntern st.env x
    let res := if infallible then Rodeo.expectOk res else res
    (setSlot st s (.threaded t'), showOut (fun k => s!"ok {k}") res)
  | _ => (st, "bad-op")

def opInternStatic (st : DState) (s : Nat) (i : Nat) (infallible : Bool) : DState × String :=
  match getSlot st s with
  | .rodeo r =>
    let res := r.tryInternStatic st.env i (growAt r.strings.length)
    let res := if infallible then Rodeo.expectOk res else res
    match res with
    | .ok (r', k) => (setSlot st s (.rodeo r'), s!"ok {k}")
    | o => (st, showOut (fun _ => "") o)
  | .threaded t =>
    let (t', res) := t.tryInternStatic st.env i
    let res := if infallible then Rodeo.expectOk res else res
    (setSlot st s (.threaded t'), showOut (fun k => s!"ok {k}") res)
  | _ => (st, "bad-op")

def opGet (st : DState) (s : Nat) (x : Bytes) : Option (Out (Option Nat)) :=
  match getSlot st s with
  | .rodeo r => some (r.get st.env x)
  | .threaded t => some (.ok (t.get st.env x))
  | .reader r _ => some (r.get st.env x)
  | _ => none

/-- Resolution through the model's own entry points. `mode`: 0 = resolve / index, 1 = try_resolve,
2 = resolve_unchecked. The result is `some bytes` / `none`. -/
def resolveObj (env : Env) (o : Obj) (k : Nat) (mode : Nat) : Out (Option Bytes) :=
  match o, mode with
  | .rodeo r, 0 => (r.resolve env k).map some
  | .rodeo r, 1 => r.tryResolve env k
  | .rodeo r, _ => (r.resolveUnchecked env k).map some
  | .reader r _, 0 => (r.resolve env k).map some
  | .reader r _, 1 => r.tryResolve env k
  | .reader r _, _ => (r.resolveUnchecked env k).map some
  | .resolver r _, 0 => (r.resolve env k).map some
  | .resolver r _, 1 => r.tryResolve env k
  | .resolver r _, _ => (r.resolveUnchecked env k).map some
  | .threaded t, 1 => t.tryResolve env k
  | .threaded t, _ => (t.resolve env k).map some
  | .gone, _ => .fault .unreachable

def opResolve (st : DState) (s : Nat) (k : Nat) (mode : Nat) : String :=
  let o := getSlot st s
  -- the unchecked path is only ever exercised on keys that exist
  if mode == 2 && !(o.refAt k).isSome then "skipped" else
  match resolveObj st.env o k mode with
  | .ok (some b) =>
    let prov := match o.refAt k with
      | some ref => showProv o ref
      | none => "?"
    if mode == 1 then s!"some {hex b} {prov}" else s!"str {hex b} {prov}"
  | .ok none => "none"
  | .err e => showErr e
  | .panic => "panic"
  | .fault _ => "fault"

/-- All `(key, bytes)` pairs through the model's `iter` (vector containers) resp. the sorted
key->string map (concurrent interner, "up to order"). -/
def iterObj (env : Env) (o : Obj) : Out (List (Nat × Bytes)) :=
  match o with
  | .rodeo r => r.iter env
  | .reader r _ => r.iter env
  | .resolver r _ => r.iter env
  | .threaded t =>
    match t.sortedStrs.mapM (fun (k, ref) => (t.content env ref).map fun b => (k, b)) with
    | some l => .ok l
    | none => .fault .oobIndex
  | .gone => .fault .unreachable

def showPairs (env : Env) (o : Obj) (withKeys : Bool) : String :=
  match iterObj env o with
  | .ok l => showList (l.map fun (k, b) => if withKeys then s!"{k}:{hex b}" else hex b)
  | .err e => showErr e
  | .panic => "panic"
  | .fault _ => "fault"

def parseScript (s : String) : List IterStep :=
  (s.splitOn ",").filterMap fun t =>
    if t == "n" then some .next
    else if t == "b" then some .nextBack
    else if t == "l" then some .len
    else if t.startsWith "t" then (t.drop 1).toString.toNat?.map .nthBack
    else none

def runScript (items : List String) : List IterStep → List String
  | [] => []
  | st :: rest =>
    let (l', out) := iterStep items st
    let shown := match out with
      | none => "none"
      | some (.inl x) => x
      | some (.inr n) => toString n
    shown :: runScript l' rest

def opIterScript (st : DState) (s : Nat) (kind : String) (script : String) : String :=
  let o := getSlot st s
  match iterObj st.env o with
  | .ok l =>
    let items := l.map fun (k, b) => if kind == "strings" then hex b else s!"{k}:{hex b}"
    joinWith ";" (runScript items (parseScript script))
  | _ => "fault"

def contentsOfObj (env : Env) (o : Obj) : Option (List Bytes) :=
  o.pairs.mapM fun (_, ref) => contentIn env o ref

def kindName : Obj → Wrapper
  | .rodeo _ => .rodeo
  | .threaded _ => .threaded
  | .reader _ _ => .reader
  | .resolver _ _ => .resolver
  | .gone => .other "gone"

/-- `a == b`, evaluated by the shape the extractor read from the `PartialEq` impl of the pairing. -/
def opEq (st : DState) (a b : Nat) : String :=
  let oa := getSlot st a
  let ob := getSlot st b
  match Extracted.eqImpls.find? (fun e => e.lhs == kindName oa && e.rhs == kindName ob) with
  | none => "unsupported"
  | some e =>
    match e.shape with
    | .stringsEq => showOut toString (eqStrings (contentsOfObj st.env oa) (contentsOfObj st.env ob))
    | .lenAndAllLookup =>
      match oa, ob with
      | .threaded ta, .threaded tb => toString (eqThreaded st.env ta tb)
      | .threaded ta, _ => showOut toString (eqThreadedVec st.env ta.N ta (contentsOfObj st.env ob))
      | _, _ => "unsupported"
    | .other _ => "unknown-shape"

def opSer (st : DState) (a : Nat) : String :=
  let o := getSlot st a
  match o with
  | .threaded t =>
    -- map string -> raw key, canonicalised by sorting on the hex of the string
    let items := t.map.filterMap fun (ref, k) => (t.content st.env ref).map fun b => (hex b, k + 1)
    let sorted := items.toArray.qsort (fun x y => x.1 < y.1) |>.toList
    "map " ++ showList (sorted.map fun (h, r) => s!"{h}={r}")
  | .gone => "bad-op"
  | _ => match contentsOfObj st.env o with
    | some cs => "list " ++ showList (cs.map hex)
    | none => "fault"

def opDe (st : DState) (kind : String) (s : Nat) (doc : String) : DState × String :=
  match kind with
  | "rodeo" => match unhexList doc with
    | some d => match deRodeo st.env st.N d with
      | .ok r => (setSlot st s (.rodeo r), "ok")
      | o => (st, showOut (fun _ => "") o)
    | none => (st, "bad-op")
  | "reader" => match unhexList doc with
    | some d => match deReader st.env st.N d with
      | .ok r => (setSlot st s (.reader r false), "ok")
      | o => (st, showOut (fun _ => "") o)
    | none => (st, "bad-op")
  | "resolver" => match unhexList doc with
    | some d => match deResolver st.N d with
      | .ok r => (setSlot st s (.resolver r false), "ok")
      | o => (st, showOut (fun _ => "") o)
    | none => (st, "bad-op")
  | "threaded" => match parseDocMap doc with
    | some d => match deThreaded st.N d with
      | .ok t => (setSlot st s (.threaded t), "ok")
      | o => (st, showOut (fun _ => "") o)
    | none => (st, "bad-op")
  | _ => (st, "bad-op")

/-- `extend`: the model's loop; a failing item panics and leaves what was interned before it. -/
def opExtend (st : DState) (s : Nat) (xs : List Bytes) : DState × String :=
  match getSlot st s with
  | .rodeo r =>
    let (r', ok) := r.extend st.env xs
    (setSlot st s (.rodeo r'), if ok then "ok" else "panic")
  | .threaded t =>
    let (t', ok) := t.extend st.env xs
    (setSlot st s (.threaded t'), if ok then "ok" else "panic")
  | _ => (st, "bad-op")

/-- `from_iter`: a panic inside unwinds through the half-built interner, nothing is produced. -/
def opFromIter (st : DState) (s : Nat) (kind : String) (xs : List Bytes) : DState × String :=
  match kind with
  | "rodeo" =>
    let (r, ok) := Rodeo.fromIter st.env st.N xs
    if ok then (setSlot st s (.rodeo r), "ok") else (setSlot st s .gone, "panic")
  | "threaded" =>
    let (t, ok) := Threaded.fromIter st.env st.N xs
    if ok then (setSlot st s (.threaded t), "ok") else (setSlot st s .gone, "panic")
  | _ => (st, "bad-op")

def opAudit (st : DState) (a : Nat) : String :=
  let o := getSlot st a
  let bl := o.blocks.map fun b => s!"{b.cap}:{b.data.length}"
  let ss := o.pairs.map fun (_, ref) =>
    match ref with
    | .arena loc => s!"{showProv o ref}:{loc.len}"
    | _ => showProv o ref
  s!"blocks {showList bl} strs {showList ss} mem {o.usage}"

def newObj (st : DState) (kind : String) (bytes limit : Nat) : Option Obj :=
  match kind with
  | "rodeo" => some (.rodeo (Rodeo.new st.N bytes limit))
  | "threaded" => some (.threaded (Threaded.new st.N bytes limit))
  | _ => none

/-- `ctor`: build through one of the constructors / builders (configuration interpreted from the regenerated
tables), report usage and limit, then the trace of interning `items` into a second object built the same
way; the slot gets the fresh object. -/
def opCtor (st : DState) (s : Nat) (kind ctorName capB : String) (strings bytes : Nat) (limB : String)
    (limit : Nat) (items : List Bytes) : DState × String :=
  let c := parseCtorName ctorName
  let cb := parseBuilderName capB
  let lb := parseBuilderName limB
  let obj : Option Obj := match kind with
    | "rodeo" => (Rodeo.construct st.N c cb strings bytes lb limit).map Obj.rodeo
    | "threaded" => (Threaded.construct st.N c cb strings bytes lb limit).map Obj.threaded
    | _ => none
  match obj with
  | none => (st, "bad-op")
  | some o =>
    let st0 := setSlot st s o
    let (_, trace) := items.foldl (fun (acc : DState × List String) x =>
      let (st', r) := opIntern acc.1 s x false
      (st', acc.2 ++ [s!"{r}:{(getSlot st' s).usage}"])) (st0, [])
    (st0, s!"ok {o.usage} {showLimit o.maxMem}" ++ String.join (trace.map fun t => " " ++ t.replace " " "_"))

def parseLimit (s : String) : Option Nat := if s == "max" then some usizeMax else s.toNat?

/-- Interpretation of one (already split) operation. -/
def stepOp (st : DState) (toks : List String) : DState × String :=
  match toks with
  | ["new", s, kind, _strings, bytes, limit] =>
    match s.toNat?, bytes.toNat?, parseLimit limit with
    | some s, some b, some l => match newObj st kind b l with
      | some o => (setSlot st s o, "ok")
      | none => (st, "bad-op")
    | _, _, _ => (st, "bad-op")
  | ["intern", s, x] => match s.toNat?, unhex x with
    | some s, some x => opIntern st s x false
    | _, _ => (st, "bad-op")
  | ["internP", s, x] => match s.toNat?, unhex x with
    | some s, some x => opIntern st s x true
    | _, _ => (st, "bad-op")
  | ["internS", s, i] => match s.toNat?, i.toNat? with
    | some s, some i => opInternStatic st s i false
    | _, _ => (st, "bad-op")
  | ["internSP", s, i] => match s.toNat?, i.toNat? with
    | some s, some i => opInternStatic st s i true
    | _, _ => (st, "bad-op")
  | ["get", s, x] => match s.toNat?, unhex x with
    | some s, some x => match opGet st s x with
      | some r => (st, showOut (fun o => match o with
          | some k => s!"some {k}"
          | none => "none") r)
      | none => (st, "bad-op")
    | _, _ => (st, "bad-op")
  | ["contains", s, x] => match s.toNat?, unhex x with
    | some s, some x => match opGet st s x with
      | some r => (st, showOut (fun o => toString o.isSome) r)
      | none => (st, "bad-op")
    | _, _ => (st, "bad-op")
  | ["resolve", s, k] => match s.toNat?, k.toNat? with
    | some s, some k => (st, opResolve st s k 0)
    | _, _ => (st, "bad-op")
  | ["index", s, k] => match s.toNat?, k.toNat? with
    | some s, some k => (st, opResolve st s k 0)
    | _, _ => (st, "bad-op")
  | ["tryResolve", s, k] => match s.toNat?, k.toNat? with
    | some s, some k => (st, opResolve st s k 1)
    | _, _ => (st, "bad-op")
  | ["resolveU", s, k] => match s.toNat?, k.toNat? with
    | some s, some k => (st, opResolve st s k 2)
    | _, _ => (st, "bad-op")
  | ["containsKey", s, k] => match s.toNat?, k.toNat? with
    | some s, some k => (st, toString ((getSlot st s).refAt k).isSome)
    | _, _ => (st, "bad-op")
  | ["len", s] => match s.toNat? with
    | some s => (st, toString (getSlot st s).len)
    | none => (st, "bad-op")
  | ["isEmpty", s] => match s.toNat? with
    | some s => (st, toString ((getSlot st s).len == 0))
    | none => (st, "bad-op")
  | ["mem", s] => match s.toNat? with
    | some s => (st, toString (getSlot st s).usage)
    | none => (st, "bad-op")
  | ["max", s] => match s.toNat? with
    | some s => (st, showLimit (getSlot st s).maxMem)
    | none => (st, "bad-op")
  | ["setLimit", s, n] => match s.toNat?, parseLimit n with
    | some s, some n => match getSlot st s with
      | .rodeo r => (setSlot st s (.rodeo (r.setLimit n)), "ok")
      | .threaded t => (setSlot st s (.threaded (t.setLimit n)), "ok")
      | _ => (st, "bad-op")
    | _, _ => (st, "bad-op")
  | ["clear", s] => match s.toNat? with
    | some s => match getSlot st s with
      | .rodeo r => (setSlot st s (.rodeo r.clear), "ok")
      | _ => (st, "bad-op")
    | none => (st, "bad-op")
  | ["drop", s] => match s.toNat? with
    | some s => (setSlot st s .gone, "ok")
    | none => (st, "bad-op")
  | ["extend", s, items] => match s.toNat?, unhexList items with
    | some s, some xs => opExtend st s xs
    | _, _ => (st, "bad-op")
  | [op, a, b] =>
    match a.toNat?, b.toNat? with
    | some a, some b =>
      if op == "clone" || op == "tryClone" then
        match getSlot st a with
        | .rodeo r =>
          let res := r.tryClone st.env false
          let res := if op == "clone" then Rodeo.expectOk res else res
          match res with
          | .ok r' => (setSlot st b (.rodeo r'), "ok")
          | o => (st, showOut (fun _ => "") o)
        | _ => (st, "bad-op")
      else if op == "cloneFrom" || op == "tryCloneFrom" then
        -- target a, source b; a failed clone-into leaves the target unspecified: it is dropped
        match getSlot st a, getSlot st b with
        | .rodeo t, .rodeo src =>
          let res := Rodeo.tryCloneFrom st.env t src false
          let res := if op == "cloneFrom" then Rodeo.expectOk res else res
          match res with
          | .ok r' => (setSlot st a (.rodeo r'), "ok")
          | o => (setSlot st a .gone, showOut (fun _ => "") o)
        | _, _ => (st, "bad-op")
      else if op == "eq" then (st, opEq st a b)
      else (st, "bad-op")
    | _, _ => (st, "bad-op")
  | ["intoReader", s] => match s.toNat? with
    | some s => match getSlot st s with
      | .rodeo r => (setSlot st s (.reader r.intoReader false), "ok")
      | .threaded t => match t.intoReader st.env with
        | .ok r => (setSlot st s (.reader r t.unordered), "ok")
        | o => (setSlot st s .gone, showOut (fun _ => "") o)
      | _ => (st, "bad-op")
    | none => (st, "bad-op")
  | ["intoResolver", s] => match s.toNat? with
    | some s => match getSlot st s with
      | .rodeo r => (setSlot st s (.resolver r.intoResolver false), "ok")
      | .threaded t => match t.intoResolver with
        | .ok r => (setSlot st s (.resolver r t.unordered), "ok")
        | o => (setSlot st s .gone, showOut (fun _ => "") o)
      | .reader r u => (setSlot st s (.resolver r.intoResolver u), "ok")
      | _ => (st, "bad-op")
    | none => (st, "bad-op")
  | ["iter", s] => match s.toNat? with
    | some s => (st, showPairs st.env (getSlot st s) true)
    | none => (st, "bad-op")
  | ["strings", s] => match s.toNat? with
    | some s => (st, showPairs st.env (getSlot st s) false)
    | none => (st, "bad-op")
  | ["iterScript", s, kind, script] => match s.toNat? with
    | some s => (st, opIterScript st s kind script)
    | none => (st, "bad-op")
  | ["ser", s] => match s.toNat? with
    | some s => (st, opSer st s)
    | none => (st, "bad-op")
  | ["de", kind, s, doc] => match s.toNat? with
    | some s => opDe st kind s doc
    | none => (st, "bad-op")
  | ["ctor", s, kind, ctorName, capB, strings, bytes, limB, limit, items] =>
    match s.toNat?, strings.toNat?, bytes.toNat?, (if limit == "max" then some usizeMax else limit.toNat?), unhexList items with
    | some s, some ns, some nb, some l, some xs => opCtor st s kind ctorName capB ns nb limB l xs
    | _, _, _, _, _ => (st, "bad-op")
  | ["fromIter", s, kind, items, _hint] => match s.toNat?, unhexList items with
    | some s, some xs => opFromIter st s kind xs
    | _, _ => (st, "bad-op")
  | ["audit", s] => match s.toNat? with
    | some s => (st, opAudit st s)
    | none => (st, "bad-op")
  | _ => (st, "bad-op")

/-- `roundtrip a b`: serialise `a`, deserialise the result as the same container kind into `b`. -/
def opRoundtrip (st : DState) (a b : Nat) : DState × String :=
  let o := getSlot st a
  match o with
  | .gone => (st, "bad-op")
  | .threaded t =>
    let doc := t.serDoc st.env
    if doc.length ≠ t.map.length then (st, "fault") else
    match deThreaded st.N doc with
    | .ok t' => (setSlot st b (.threaded t'), "ok")
    | r => (st, showOut (fun _ => "") r)
  | _ =>
    match contentsOfObj st.env o with
    | none => (st, "fault")
    | some cs =>
      match o with
      | .rodeo _ => match deRodeo st.env st.N cs with
        | .ok r => (setSlot st b (.rodeo r), "ok")
        | r => (st, showOut (fun _ => "") r)
      | .reader _ _ => match deReader st.env st.N cs with
        | .ok r => (setSlot st b (.reader r false), "ok")
        | r => (st, showOut (fun _ => "") r)
      | _ => match deResolver st.N cs with
        | .ok r => (setSlot st b (.resolver r false), "ok")
        | r => (st, showOut (fun _ => "") r)

/-- Operations after which a faulted object is unusable: the slot is dropped (the harness does the same). -/
def mutatingOps : List String := ["intern", "internP", "internS", "internSP", "extend", "fromIter"]

/-- Slots an operation reads: an operation on a slot that holds nothing is a `bad-op`. -/
def subjectsOf (toks : List String) : List String :=
  match toks with
  | op :: a :: rest =>
    if op == "new" || op == "ctor" || op == "de" || op == "fromIter" || op == "drop" then []
    else if op == "cloneFrom" || op == "tryCloneFrom" || op == "eq" then a :: rest.take 1
    else [a]
  | _ => []

def subjectsLive (st : DState) (toks : List String) : Bool :=
  (subjectsOf toks).all fun s => match s.toNat? with
    | some i => match getSlot st i with
      | .gone => false
      | _ => true
    | none => false

def stepOpG (st : DState) (toks : List String) : DState × String :=
  if !subjectsLive st toks then (st, "bad-op") else
  match toks with
  | ["roundtrip", a, b] => match a.toNat?, b.toNat? with
    | some a, some b => opRoundtrip st a b
    | _, _ => (st, "bad-op")
  | _ =>
    let (st', out) := stepOp st toks
    if out == "fault" then
      match toks with
      | op :: s :: _ =>
        if mutatingOps.contains op then
          match s.toNat? with
          | some s => (setSlot st' s .gone, out)
          | none => (st', out)
        else (st', out)
      | _ => (st', out)
    else (st', out)

/-! ### concurrent scenarios (C03) -/

def parseCall (s : String) : Option Conc.Call :=
  match s.splitOn ":" with
  | ["i", h] => (unhex h).map .intern
  | ["s", h] => (unhex h).map .internStatic
  | ["g", h] => (unhex h).map .get
  | ["r", k] => k.toNat?.map .tryResolve
  | ["c", k] => k.toNat?.map .containsKey
  | ["l"] => some .len
  | _ => none

def shardFn (sc : CScenario) (x : Bytes) : Nat :=
  match sc.shards.find? (fun e => e.1 == x) with
  | some e => e.2
  | none => 0

def showRes : Conc.Res → String
  | .key k => s!"ok{k}"
  | .err e => match e with
    | .memoryLimit => "errmem"
    | .keySpace => "errkeys"
    | _ => "err"
  | .optKey (some k) => s!"some{k}"
  | .optKey none => "none"
  | .optStr (some b) => s!"str{hex b}"
  | .optStr none => "nostr"
  | .bool b => toString b
  | .num n => toString n

/-- Initial state: the pre-fill strings are interned sequentially by a thread that then disappears. -/
def concInit (sc : CScenario) : Conc.CS :=
  let s0 := Conc.init sc.cap sc.max ([sc.prefill.map Conc.Call.intern] ++ sc.programs)
  -- run thread 0 (the pre-fill) to completion
  let rec go (fuel : Nat) (s : Conc.CS) : Conc.CS :=
    match fuel with
    | 0 => s
    | f + 1 => match Conc.step (shardFn sc) sc.N s 0 with
      | some s' => go f s'
      | none => s
  go (sc.prefill.length * 8 + 1) s0

def insertSortedStr (e : String) : List String → List String
  | [] => [e]
  | x :: r => if e ≤ x then e :: x :: r else x :: insertSortedStr e r

def sortStrs (l : List String) : List String := l.foldr insertSortedStr []

/-- Canonical rendering of a finished run: per-thread results in call order (thread 0 is the
pre-fill and is not shown), the two maps sorted, the counter and the memory usage. -/
def showConc (sc : CScenario) (s : Conc.CS) : String :=
  let n := sc.programs.length
  let perThread := (List.range n).map fun i =>
    let t := i + 1
    let rs := (s.log.reverse.filter (fun e => e.1 == t)).map (fun e => showRes e.2.2)
    s!"T{i}:" ++ joinWith "," rs
  let mp := sortStrs (s.map.map fun e => s!"{hex e.1}={e.2}")
  let st := sortStrs (s.strs.map fun e => s!"{e.1}={hex e.2}")
  joinWith ";" perThread ++ s!"|map:{joinWith "," mp}|strs:{joinWith "," st}|ctr={s.ctr}|mem={s.arena.usage}|done={Conc.quiescent s}"

def splitmix (z : UInt64) : UInt64 × UInt64 :=
  let z := z + 0x9E3779B97F4A7C15
  let a := (z ^^^ (z >>> 30)) * 0xBF58476D1CE4E5B9
  let b := (a ^^^ (a >>> 27)) * 0x94D049BB133111EB
  (z, b ^^^ (b >>> 31))

/-- A random complete schedule: only enabled threads (never the pre-fill thread) are picked. -/
def genSchedule (sc : CScenario) (seed : UInt64) : List Nat :=
  let rec go (fuel : Nat) (s : Conc.CS) (z : UInt64) (acc : List Nat) : List Nat :=
    match fuel with
    | 0 => acc.reverse
    | f + 1 =>
      let en := (Conc.enabled (shardFn sc) sc.N s).filter (· != 0)
      if en.isEmpty then acc.reverse else
      let (z', r) := splitmix z
      let t := en.getD (r.toNat % en.length) 0
      match Conc.step (shardFn sc) sc.N s t with
      | some s' => go f s' z' (t :: acc)
      | none => acc.reverse
  go 4000 (concInit sc) seed []

/-- All complete schedules, depth first, at most `limit`. -/
def allSchedules (sc : CScenario) (limit : Nat) : List (List Nat) :=
  let rec go (fuel : Nat) (s : Conc.CS) (pre : List Nat) (acc : List (List Nat)) : List (List Nat) :=
    match fuel with
    | 0 => acc
    | f + 1 =>
      if acc.length ≥ limit then acc else
      let en := (Conc.enabled (shardFn sc) sc.N s).filter (· != 0)
      if en.isEmpty then pre.reverse :: acc else
      en.foldl (fun acc t =>
        match Conc.step (shardFn sc) sc.N s t with
        | some s' => go f s' (t :: pre) acc
        | none => acc) acc
  (go 64 (concInit sc) [] []).reverse

def showSched (l : List Nat) : String := joinWith "," (l.map fun t => toString (t - 1))

def concStep (st : DState) (toks : List String) : Option (DState × String) :=
  match toks with
  | ["conc", n, cap, mx] =>
    match n.toNat?, cap.toNat?, parseLimit mx with
    | some n, some c, some m => some ({ st with conc := { N := n, cap := c, max := m } }, "ok")
    | _, _, _ => none
  | "cthread" :: calls =>
    match calls.mapM parseCall with
    | some cs => some ({ st with conc := { st.conc with programs := st.conc.programs ++ [cs] } }, "ok")
    | none => none
  | ["cshard", h, sh] =>
    match unhex h, sh.toNat? with
    | some b, some n => some ({ st with conc := { st.conc with shards := (b, n) :: st.conc.shards } }, "ok")
    | _, _ => none
  | "cprefill" :: hs =>
    match hs.mapM unhex with
    | some bs => some ({ st with conc := { st.conc with prefill := bs } }, "ok")
    | none => none
  | ["cgen", seed, count] =>
    match seed.toNat?, count.toNat? with
    | some sd, some c =>
      let lines := (List.range c).map fun i => "crun " ++ showSched (genSchedule st.conc (UInt64.ofNat (sd * 1000003 + i)))
      some (st, joinWith "\n" lines)
    | _, _ => none
  | ["cexhaust", limit] =>
    match limit.toNat? with
    | some l => some (st, joinWith "\n" ((allSchedules st.conc l).map fun s => "crun " ++ showSched s))
    | none => none
  | ["crun", sched] =>
    let ts := if sched == "_" then [] else (sched.splitOn ",").filterMap (fun x => x.toNat?.map (· + 1))
    let s := Conc.run (shardFn st.conc) st.conc.N (concInit st.conc) ts
    some (st, showConc st.conc s)
  | ["crun"] => some (st, showConc st.conc (concInit st.conc))
  | ["cfree", _] => some (st, "free")   -- schedules not generated by the model: oracle-only on the implementation
  | _ => none

/-! ### concurrent arena scenarios (C05, C09) -/

def arenaInit (sc : CScenario) : CA.AS :=
  let progs := sc.programs.map fun p => p.filterMap fun c => match c with
    | .intern x => some x
    | _ => none
  -- the pre-fill strings are stored sequentially by an extra last thread that then stays idle
  let s0 := CA.init sc.cap sc.max (progs ++ [sc.prefill])
  let pre := progs.length
  let rec go (fuel : Nat) (s : CA.AS) : CA.AS :=
    match fuel with
    | 0 => s
    | f + 1 => match CA.step s pre false with
      | some s' => go f s'
      | none => s
  go (sc.prefill.length * 40 + 1) s0

def showArena (s : CA.AS) : String :=
  let n := s.ts.length - 1
  let perThread := (List.range n).map fun t =>
    let rs := (s.log.reverse.filter (fun e => e.1 == t)).map fun e => match e.2.2 with
      | .ok _ _ => "ok"
      | .empty => "ok"
      | .err => "errmem"
    s!"T{t}:" ++ joinWith "," rs
  let blocks := s.buckets.map fun b => s!"{b.cap}:{b.len}"
  let locs := sortStrs (s.log.filterMap fun e => match e.2.2 with
    | .ok bid off => (s.buckets.findIdx? (fun b => b.id == bid)).map fun p => s!"{hex e.2.1}@{p}:{off}"
    | _ => none)
  joinWith ";" perThread ++ s!"|blocks:{joinWith "," blocks}|locs:{joinWith "," locs}|usage={s.usage}|done={CA.quiescent s}"

def genArenaSchedule (sc : CScenario) (seed : UInt64) : List Nat :=
  let rec go (fuel : Nat) (s : CA.AS) (z : UInt64) (acc : List Nat) : List Nat :=
    match fuel with
    | 0 => acc.reverse
    | f + 1 =>
      let en := (CA.enabled s).filter (· + 1 != s.ts.length)
      if en.isEmpty then acc.reverse else
      let (z', r) := splitmix z
      -- bursts: stay with the same thread with probability 1/2 to reach deep interleavings
      let t := en.getD (r.toNat % en.length) 0
      match CA.step s t false with
      | some s' => go f s' z' (t :: acc)
      | none => acc.reverse
  go 6000 (arenaInit sc) seed []

def allArenaSchedules (sc : CScenario) (limit : Nat) : List (List Nat) :=
  let rec go (fuel : Nat) (s : CA.AS) (pre : List Nat) (acc : List (List Nat)) : List (List Nat) :=
    match fuel with
    | 0 => acc
    | f + 1 =>
      if acc.length ≥ limit then acc else
      let en := (CA.enabled s).filter (· + 1 != s.ts.length)
      if en.isEmpty then pre.reverse :: acc else
      en.foldl (fun acc t =>
        match CA.step s t false with
        | some s' => go f s' (t :: pre) acc
        | none => acc) acc
  (go 200 (arenaInit sc) [] []).reverse

def showSched0 (l : List Nat) : String := joinWith "," (l.map toString)

def arenaStep (st : DState) (toks : List String) : Option (DState × String) :=
  match toks with
  | ["agen", seed, count] =>
    match seed.toNat?, count.toNat? with
    | some sd, some c =>
      let lines := (List.range c).map fun i => "arun " ++ showSched0 (genArenaSchedule st.conc (UInt64.ofNat (sd * 1000003 + i)))
      some (st, joinWith "\n" lines)
    | _, _ => none
  | ["aexhaust", limit] =>
    match limit.toNat? with
    | some l => some (st, joinWith "\n" ((allArenaSchedules st.conc l).map fun s => "arun " ++ showSched0 s))
    | none => none
  | ["arun", sched] =>
    let ts := if sched == "_" then [] else (sched.splitOn ",").filterMap (fun x => x.toNat?)
    let s := CA.run (arenaInit st.conc) (ts.map fun t => (t, false))
    some (st, showArena s)
  | ["afree", _] => some (st, "free")
  | _ => none

def findSpec (name : String) : Option KeySpec :=
  Extracted.keySpecs.find? (fun s => s.name == name)

def step (st : DState) (line : String) : DState × String :=
  match concStep st (line.trimAscii.toString.splitOn " ") with
  | some r => r
  | none =>
  match arenaStep st (line.trimAscii.toString.splitOn " ") with
  | some r => r
  | none =>
  match line.trimAscii.toString.splitOn " " with
  | ["keyFrom", name, i] =>
    match findSpec name, i.toNat? with
    | some spec, some i =>
      match tryFromUsize spec i with
      | .ok (some raw) => (st, s!"some {raw}")
      | .ok none => (st, "none")
      | _ => (st, "fault")
    | _, _ => (st, "bad-op")
  | ["keyInto", name, raw] =>
    match findSpec name, raw.toNat? with
    | some spec, some raw =>
      match intoUsize spec raw with
      | .ok v => (st, s!"{v}")
      | _ => (st, "fault")
    | _, _ => (st, "bad-op")
  | ["marker", c, m, kk, sk] =>
    -- prediction of the marker model for a probe program (C19)
    let con : Option TCon := match c with
      | "Rodeo" => some .rodeo
      | "ThreadedRodeo" => some .threadedRodeo
      | "RodeoReader" => some .reader
      | "RodeoResolver" => some .resolver
      | _ => none
    let mk : Option Marker := match m with
      | "Send" => some .send
      | "Sync" => some .sync
      | _ => none
    let kind (s : String) : Option (Bool × Bool) := match s with
      | "ord" => some (true, true)
      | "nosend" => some (false, true)
      | "nosync" => some (true, false)
      | _ => none
    match con, mk, kind kk, kind sk with
    | some con, some mk, some (a, b), some (c', d) =>
      let r := Markers.holds Extracted.structDefs Extracted.markerImpls 8 (Markers.asgOf a b c' d) mk (Markers.containerTy con)
      (st, if r then "yes" else "no")
    | _, _, _, _ => (st, "bad-op")
  | ["borrowDyn", o, e, i] =>
    let owner : Option Owner := match o with
      | "Rodeo" => some .rodeo
      | "ThreadedRodeo" => some .threaded
      | "RodeoReader" => some .reader
      | "RodeoResolver" => some .resolver
      | _ => none
    let entry : Option SigName := match e with
      | "resolve" => some .resolve
      | "try_resolve" => some .tryResolve
      | "resolve_unchecked" => some .resolveUnchecked
      | _ => none
    let inv : Option Borrow.Invalidator := match i with
      | "clear" => some .clear
      | "clone_from" => some .cloneFrom
      | "try_clone_from" => some .tryCloneFrom
      | "into_reader" => some .intoReader
      | "into_resolver" => some .intoResolver
      | "drop" => some .drop
      | "scope" => some .scopeEnd
      | _ => none
    match owner, entry, inv with
    | some ow, some en, some iv =>
      match Borrow.probeVia Extracted.fnSigs .traitResolver ow en iv with
      | some (some code) => (st, s!"reject {code}")
      | some none => (st, "accept")
      | none => (st, "na")
    | _, _, _ => (st, "bad-op")
  | ["borrow", o, e, i] =>
    -- prediction of the borrow model for a probe program (C20)
    let owner : Option Owner := match o with
      | "Rodeo" => some .rodeo
      | "ThreadedRodeo" => some .threaded
      | "RodeoReader" => some .reader
      | "RodeoResolver" => some .resolver
      | "dynResolver" => some .traitResolver
      | _ => none
    let entry : Option SigName := match e with
      | "resolve" => some .resolve
      | "try_resolve" => some .tryResolve
      | "resolve_unchecked" => some .resolveUnchecked
      | "index" => some .index
      | "iter" => some .iter
      | "strings" => some .strings
      | "into_iter" => some .intoIter
      | _ => none
    let inv : Option Borrow.Invalidator := match i with
      | "clear" => some .clear
      | "clone_from" => some .cloneFrom
      | "try_clone_from" => some .tryCloneFrom
      | "into_reader" => some .intoReader
      | "into_resolver" => some .intoResolver
      | "drop" => some .drop
      | "scope" => some .scopeEnd
      | _ => none
    match owner, entry, inv with
    | some ow, some en, some iv =>
      -- a trait object borrows its container: the operations are those of the container behind it
      match Borrow.probe Extracted.fnSigs ow en iv with
      | some (some code) => (st, s!"reject {code}")
      | some none => (st, "accept")
      | none => (st, "na")
    | _, _, _ => (st, "bad-op")
  | ["staticArg", o, m] =>
    let owner : Option Owner := match o with
      | "Rodeo" => some .rodeo
      | "ThreadedRodeo" => some .threaded
      | "dynInterner" => some .traitInterner
      | _ => none
    let name : Option SigName := match m with
      | "get_or_intern_static" => some .getOrInternStatic
      | "try_get_or_intern_static" => some .tryGetOrInternStatic
      | "get_or_intern" => some .getOrIntern
      | "try_get_or_intern" => some .tryGetOrIntern
      | _ => none
    match owner, name with
    | some ow, some n => match Borrow.findSig Extracted.fnSigs ow n with
      | some sg => (st, if sg.strArgStatic == some true then "reject E0597" else "accept")
      | none => (st, "na")
    | _, _ => (st, "bad-op")
  | ["case", key, hasher] =>
    match capacityOfName key, hashByName hasher with
    | some n, some h => ({ env := { hash := h, pool := st.env.pool }, N := n, slots := [] }, "case")
    | _, _ => (st, "bad-op")
  | "pool" :: items =>
    match items.mapM unhex with
    | some p => ({ st with env := { st.env with pool := p } }, s!"pool {p.length}")
    | none => (st, "bad-op")
  | "via" :: route :: rest =>
    -- the meaning of a call through a wrapper is *defined* by the extracted forwarding table
    match Wrap.resolveVia Extracted.forwards route rest with
    | some toks' => stepOpG st toks'
    | none => (st, "no-route")
  | toks => stepOpG st toks

end Lasso.Driver
