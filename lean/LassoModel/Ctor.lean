import LassoModel.Extracted
/-
  Constructors.  Every `Rodeo::*` / `ThreadedRodeo::*` constructor and every `Capacity` /
  `MemoryLimits` builder is *interpreted from the tables the extractor regenerates from the source*
  (`Extracted.ctorSpecs`, `fullCtors`, `capBuilders`, `limBuilders`): which arguments reach the full
  constructor, and what the full constructor hands to the arena and the tables.  The closed form the rest of
  the model uses (`Rodeo.new N bytes limit`) is proved equal to this interpretation in `LassoProofs/C08`.
-/
namespace Lasso
open Lasso.Source

def usizeMaxNat : Nat := 18446744073709551615

/-- The value a builder puts into one field, given the parameter the caller supplied for it. -/
def Source.CVal.eval (p : Nat) : CVal → Option Nat
  | .param => some p
  | .lit n => some n
  | .usizeMax => some usizeMaxNat
  | .other _ => none

/-- `Capacity::<name>(..)` as `(strings, bytes)`; `strings` / `bytes` are the arguments the builder takes
(ignored by builders that take none). -/
def capOf (name : BuilderName) (strings bytes : Nat) : Option (Nat × Nat) :=
  match Extracted.capBuilders.find? (fun b => b.name == name) with
  | some b =>
    match b.strings.eval strings, b.bytes.eval bytes with
    | some s, some y => some (s, y)
    | _, _ => none
  | none => none

/-- `MemoryLimits::<name>(..)` as the maximum. -/
def limOf (name : BuilderName) (limit : Nat) : Option Nat :=
  match Extracted.limBuilders.find? (fun b => b.name == name) with
  | some b => b.max.eval limit
  | none => none

/-- The capacity and limit that reach the full constructor when constructor `c` is called with `cap` / `lim`
(for the parameters it has). -/
def ctorArgs (owner : Wrapper) (c : CtorName) (cap : Nat × Nat) (lim : Nat) : Option ((Nat × Nat) × Nat) :=
  if c == .full then some (cap, lim) else
  match Extracted.ctorSpecs.find? (fun s => s.owner == owner && s.name == c) with
  | some s =>
    let capv : Option (Nat × Nat) := match s.cap with
      | .param => some cap
      | .default => capOf .default 0 0
      | _ => none
    let limv : Option Nat := match s.lim with
      | .param => some lim
      | .default => limOf .default 0
      | _ => none
    match capv, limv with
    | some c', some l' => some (c', l')
    | _, _ => none
  | none => none

def Source.CSrc.eval (cap : Nat × Nat) (lim : Nat) : CSrc → Option Nat
  | .capStrings => some cap.1
  | .capBytes => some cap.2
  | .limMax => some lim
  | .lit n => some n
  | .other _ => none

/-- What the interner is built from. -/
structure CtorConfig where
  arenaBytes : Nat       -- capacity of the first block, charged at once
  arenaMax : Nat         -- the memory limit
  presize : Nat          -- capacity the table(s) and the string vector are created with
  deriving DecidableEq, Repr, Inhabited

def fullConfig (owner : Wrapper) (cap : Nat × Nat) (lim : Nat) : Option CtorConfig :=
  match Extracted.fullCtors.find? (fun f => f.owner == owner) with
  | some f =>
    match f.arenaBytes.eval cap lim, f.arenaMax.eval cap lim, f.tablePresize.eval cap lim with
    | some b, some m, some p => some { arenaBytes := b, arenaMax := m, presize := p }
    | _, _, _ => none
  | none => none

/-- `Owner::<ctor>(Capacity::<capB>(strings, bytes), MemoryLimits::<limB>(limit), ..)`, interpreted from
the extracted tables. -/
def ctorConfig (owner : Wrapper) (c : CtorName) (capB : BuilderName) (strings bytes : Nat)
    (limB : BuilderName) (limit : Nat) : Option CtorConfig :=
  match capOf capB strings bytes, limOf limB limit with
  | some cap, some lim =>
    match ctorArgs owner c cap lim with
    | some (cap', lim') => fullConfig owner cap' lim'
    | none => none
  | _, _ => none

/-! ### The documented behaviour, in closed form -/

def capDoc (name : BuilderName) (strings bytes : Nat) : Option (Nat × Nat) :=
  match name with
  | .new => some (strings, bytes)
  | .forStrings => some (strings, 4096)
  | .forBytes => some (50, bytes)
  | .minimal => some (0, 1)
  | .default => some (50, 4096)
  | _ => none

def limDoc (name : BuilderName) (limit : Nat) : Option Nat :=
  match name with
  | .new => some limit
  | .forMemoryUsage => some limit
  | .default => some usizeMaxNat
  | _ => none

/-- Which of its two settings a constructor takes from the caller. -/
def ctorTakes : CtorName → Option (Bool × Bool)
  | .new => some (false, false)
  | .default => some (false, false)
  | .withHasher => some (false, false)
  | .withCapacity => some (true, false)
  | .withCapacityAndHasher => some (true, false)
  | .withMemoryLimits => some (false, true)
  | .withCapacityAndMemoryLimits => some (true, true)
  | .full => some (true, true)
  | .other _ => none

def ctorConfigDoc (c : CtorName) (capB : BuilderName) (strings bytes : Nat)
    (limB : BuilderName) (limit : Nat) : Option CtorConfig :=
  match ctorTakes c, capDoc capB strings bytes, limDoc limB limit with
  | some (tc, tl), some cap, some lim =>
    let cap' := if tc then cap else (50, 4096)
    let lim' := if tl then lim else usizeMaxNat
    some { arenaBytes := cap'.2, arenaMax := lim', presize := cap'.1 }
  | _, _, _ => none

def parseCtorName : String → CtorName
  | "new" => .new
  | "default" => .default
  | "withCapacity" => .withCapacity
  | "withMemoryLimits" => .withMemoryLimits
  | "withCapacityAndMemoryLimits" => .withCapacityAndMemoryLimits
  | "withHasher" => .withHasher
  | "withCapacityAndHasher" => .withCapacityAndHasher
  | "full" => .full
  | s => .other s

def parseBuilderName : String → BuilderName
  | "new" => .new
  | "forStrings" => .forStrings
  | "forBytes" => .forBytes
  | "minimal" => .minimal
  | "default" => .default
  | "forMemoryUsage" => .forMemoryUsage
  | s => .other s

end Lasso
