import LassoModel.Views
import LassoModel.Source
/-
  Release of storage blocks (C04: "all blocks are released exactly once when the interner and the views derived
  from it are gone").

  Single-threaded arena: `Vec<Bucket>`; dropping the vector drops every element once, in order (Rust's drop glue),
  and `impl Drop for Bucket` frees the block.  What the model records of a block is its identity and its capacity
  (= the layout it was allocated with).

  Concurrent arena: `impl Drop for AtomicBucketList` walks the linked list by hand.  Its statements are regenerated
  from the source (`Extracted.listDropEffects`) and *interpreted* here on a list of any length: the nodes are
  numbered from the head (node `i` points to node `i+1`, the last one to null); reading a field of a node that has
  been freed, freeing a node twice, freeing with a layout that is not the node's own, or running a statement the
  translator did not recognise makes the run fail.
-/
namespace Lasso
open Source

/-- What is handed back to the allocator: the block and the capacity its layout is computed from. -/
structure Released where
  id : Nat
  cap : Nat
  deriving DecidableEq, Repr, Inhabited

def Bucket.released (b : Bucket) : Released := { id := b.id, cap := b.cap }

/-- Dropping the single-threaded arena: every element of the vector, in vector order. -/
def Arena.release (a : Arena) : List Released := a.vecOrder.map Bucket.released

/-! ## The list walk, interpreted -/

structure DropSt where
  head : Option Nat          -- register `head_ptr` (`none`: null)
  current : Option Nat       -- register `current_ptr`
  capacity : Option Nat
  layout : Option Nat        -- the capacity the layout was computed from
  freed : List Nat           -- nodes handed to `dealloc`, in order
  deriving DecidableEq, Repr, Inhabited

def DropSt.reg (st : DropSt) : DropPtr → Option Nat
  | .head => st.head
  | .current => st.current
  | .other => none

/-- The node a register points to, if it exists and has not been freed: `(index, capacity)`. -/
def liveNode (caps : List Nat) (st : DropSt) (p : DropPtr) : Option (Nat × Nat) :=
  match st.reg p with
  | some i =>
    match caps[i]? with
    | some c => if i ∈ st.freed then none else some (i, c)
    | none => none
  | none => none

def dropStep (caps : List Nat) (st : DropSt) : DropEffect → Option DropSt
  | .saveCurrent => some { st with current := st.head }
  | .advance p =>
    match liveNode caps st p with
    | some (i, _) => some { st with head := if i + 1 < caps.length then some (i + 1) else none }
    | none => none
  | .readCapacity p =>
    match liveNode caps st p with
    | some (_, c) => some { st with capacity := some c }
    | none => none
  | .layoutOfCapacity =>
    match st.capacity with
    | some c => some { st with layout := some c }
    | none => none
  | .dealloc p isLocal =>
    match liveNode caps st p, st.layout with
    | some (i, c), some l => if isLocal && l == c then some { st with freed := st.freed ++ [i] } else none
    | _, _ => none
  | _ => none

def dropBody (caps : List Nat) : List DropEffect → DropSt → Option DropSt
  | [], st => some st
  | e :: es, st =>
    match dropStep caps st e with
    | some st' => dropBody caps es st'
    | none => none

/-- `while !head.is_null() { body }`, with fuel (running out of fuel is a failure: the walk does not terminate). -/
def dropLoop (caps : List Nat) (body : List DropEffect) : Nat → DropSt → Option DropSt
  | 0, st => if st.head.isNone then some st else none
  | fuel + 1, st =>
    match st.head with
    | none => some st
    | some _ =>
      match dropBody caps body st with
      | some st' => dropLoop caps body fuel st'
      | none => none

def isLoopMarker : DropEffect → Bool
  | .loadHead | .whileHeadNonNull | .loopEnd => true
  | _ => false

/-- The statement list must be `loadHead, whileHeadNonNull, <body>, loopEnd` and nothing else. -/
def dropShape : List DropEffect → Option (List DropEffect)
  | .loadHead :: .whileHeadNonNull :: rest =>
    match rest.reverse with
    | .loopEnd :: rb => if rb.any isLoopMarker then none else some rb.reverse
    | _ => none
  | _ => none

/-- Run the walk on a list whose nodes have the capacities `caps`: the nodes freed, in order. -/
def runListDrop (effects : List DropEffect) (caps : List Nat) : Option (List Nat) :=
  match dropShape effects with
  | some body =>
    let st0 : DropSt := { head := if 0 < caps.length then some 0 else none, current := none, capacity := none, layout := none, freed := [] }
    match dropLoop caps body (caps.length + 1) st0 with
    | some st => some st.freed
    | none => none
  | none => none

/-- Dropping the concurrent arena with the given walk. -/
def LArena.releaseBy (effects : List DropEffect) (a : LArena) : Option (List Released) :=
  match runListDrop effects (a.buckets.map (·.cap)) with
  | some order => some (order.filterMap fun i => (a.buckets[i]?).map Bucket.released)
  | none => none

/-- The walk as the model has it: every node from the head on. -/
def LArena.release (a : LArena) : List Released := a.buckets.map Bucket.released

def AnyArena.release : AnyArena → List Released
  | .st a => a.release
  | .lf a => a.release

end Lasso
