import LassoModel.Basic
/-
  The two arenas.

  * `Arena`  — `arenas/single_threaded.rs` + `bucket.rs`: a vector of blocks, only the *last* one is
    ever bumped; three growth branches (oversized / remaining budget / doubled).
  * `LArena` — `arenas/lockfree.rs` + `atomic_bucket.rs`, *sequential* semantics: a list of blocks,
    head first, first block with room wins; same three growth branches, new blocks pushed at the head.
    (The concurrent small-step semantics is in `Conc.lean`.)

  A block's `data` is its initialised prefix: `data.length` is the bump index.  The unchecked bump
  copy (`push_slice`) is modelled as a checked one that yields `fault .oobWrite`.
-/
namespace Lasso

structure Bucket where
  id : Nat
  cap : Nat
  data : Bytes
  deriving Repr, Inhabited, DecidableEq

namespace Bucket

def free (b : Bucket) : Nat := b.cap - b.data.length

/-- `Bucket::push_slice` / `UniqueBucketRef::push_slice`: unchecked in the source. -/
def push (b : Bucket) (s : Bytes) : Out (Bucket × Loc) :=
  if b.data.length + s.length ≤ b.cap then
    .ok ({ b with data := b.data ++ s }, { bid := b.id, off := b.data.length, len := s.length })
  else .fault .oobWrite

def readAt (b : Bucket) (off len : Nat) : Option Bytes :=
  if off + len ≤ b.data.length then some ((b.data.drop off).take len) else none

def clear (b : Bucket) : Bucket := { b with data := [] }

end Bucket

def sumCaps (bs : List Bucket) : Nat := sumNat (bs.map (·.cap))

def readIn (bs : List Bucket) (loc : Loc) : Option Bytes :=
  match bs.find? (fun b => b.id == loc.bid) with
  | some b => b.readAt loc.off loc.len
  | none => none

/-- `Vec::insert(len.saturating_sub(2), x)` on the vector `full ++ [cur]`, expressed on `full`:
the new element goes in front of the last element of `full` (or becomes its only element). -/
def insertBeforeLast (x : α) : List α → List α
  | [] => [x]
  | [y] => [x, y]
  | y :: z :: r => y :: insertBeforeLast x (z :: r)

/-! ## Single-threaded arena -/

structure Arena where
  cur : Bucket            -- the last bucket of the vector: the only one `store_str` looks at
  full : List Bucket      -- all other buckets, in vector order
  bucketCap : Nat
  usage : Nat
  max : Nat
  nextId : Nat
  deriving Repr, Inhabited, DecidableEq

namespace Arena

def new (cap max : Nat) : Arena :=
  { cur := { id := 0, cap := cap, data := [] }, full := [], bucketCap := cap, usage := cap, max := max, nextId := 1 }

def all (a : Arena) : List Bucket := a.cur :: a.full

/-- Blocks in the order of the source's `Vec<Bucket>`. -/
def vecOrder (a : Arena) : List Bucket := a.full ++ [a.cur]

def read (a : Arena) (loc : Loc) : Option Bytes := readIn a.all loc

def clear (a : Arena) : Arena := { a with cur := a.cur.clear, full := a.full.map Bucket.clear }

/-- `allocate_memory`: check-then-add. -/
def allocate (a : Arena) (n : Nat) : Option Arena :=
  if a.usage + n > a.max then none else some { a with usage := a.usage + n }

/-- A fresh block of capacity `cap` holding `s` (the unchecked `push_slice` into a new bucket). -/
def freshBlock (id cap : Nat) (s : Bytes) : Bucket := { id := id, cap := cap, data := s }

def storeFit (a : Arena) (s : Bytes) : Out (Arena × StrRef) :=
  if a.cur.data.length + s.length ≤ a.cur.cap then
    .ok ({ a with cur := { a.cur with data := a.cur.data ++ s } },
         .arena { bid := a.cur.id, off := a.cur.data.length, len := s.length })
  else .fault .oobWrite

/-- `len > 2 * bucket_capacity`: an exactly-sized block, inserted so that the last block stays last. -/
def storeOversize (a : Arena) (s : Bytes) : Out (Arena × StrRef) :=
  if a.usage + s.length > a.max then .err .memoryLimit
  else
    .ok ({ a with usage := a.usage + s.length, full := insertBeforeLast (freshBlock a.nextId s.length s) a.full,
                  nextId := a.nextId + 1 },
         .arena { bid := a.nextId, off := 0, len := s.length })

/-- `usage + 2*cap > max`: "allocate as much as we can" — with the repair for D1 (a string longer
than what is left is refused). `allocate_memory(rem)` then cannot fail, and `rem ≠ 0`. -/
def storeRemaining (a : Arena) (s : Bytes) : Out (Arena × StrRef) :=
  let rem := a.max - a.usage
  if rem < s.length then .err .memoryLimit
  else if a.usage + rem > a.max then .err .memoryLimit
  else if rem = 0 then .err .memoryLimit
  else if s.length ≤ rem then
    .ok ({ a with usage := a.usage + rem, full := a.full ++ [a.cur], cur := freshBlock a.nextId rem s,
                  nextId := a.nextId + 1 },
         .arena { bid := a.nextId, off := 0, len := s.length })
  else .fault .oobWrite

/-- The ordinary case: a block of twice the current capacity, which becomes the new capacity. -/
def storeDouble (a : Arena) (s : Bytes) : Out (Arena × StrRef) :=
  let next := a.bucketCap * 2
  if a.usage + next > a.max then .err .memoryLimit
  else if s.length ≤ next then
    .ok ({ a with usage := a.usage + next, full := a.full ++ [a.cur], cur := freshBlock a.nextId next s,
                  bucketCap := next, nextId := a.nextId + 1 },
         .arena { bid := a.nextId, off := 0, len := s.length })
  else .fault .oobWrite

/-- `Arena::store_str`, branches in source order. -/
def store (a : Arena) (s : Bytes) : Out (Arena × StrRef) :=
  if s.length = 0 then .ok (a, .empty)
  else if s.length ≤ a.cur.free then a.storeFit s
  else if s.length > a.bucketCap * 2 then a.storeOversize s
  else if a.usage + a.bucketCap * 2 > a.max then a.storeRemaining s
  else a.storeDouble s

/-- Which branch `store` takes (for the generator-distribution evidence). -/
def branchOf (a : Arena) (s : Bytes) : String :=
  if s.length = 0 then "empty"
  else if s.length ≤ a.cur.free then "fit"
  else if s.length > a.bucketCap * 2 then "oversize"
  else if a.usage + a.bucketCap * 2 > a.max then "remaining"
  else "double"

end Arena

/-! ## Lock-free arena, sequential semantics -/

structure LArena where
  buckets : List Bucket   -- head of the list first
  bucketCap : Nat
  usage : Nat
  max : Nat
  nextId : Nat
  deriving Repr, Inhabited, DecidableEq

namespace LArena

def new (cap max : Nat) : LArena :=
  { buckets := [{ id := 0, cap := cap, data := [] }], bucketCap := cap, usage := cap, max := max, nextId := 1 }

def read (a : LArena) (loc : Loc) : Option Bytes := readIn a.buckets loc

/-- Walk the list; the first block whose reservation (`try_inc_length`) succeeds gets the string. -/
def fitIn (s : Bytes) : List Bucket → Option (List Bucket × Loc)
  | [] => none
  | b :: rest =>
    if b.data.length + s.length ≤ b.cap then
      some ({ b with data := b.data ++ s } :: rest, { bid := b.id, off := b.data.length, len := s.length })
    else
      match fitIn s rest with
      | some (r, l) => some (b :: r, l)
      | none => none

/-- No existing block has room: the three growth branches, new blocks pushed at the head.
`allocate_memory` (after the repair for D6) is one atomic check-and-add; sequentially the same. -/
def grow (a : LArena) (s : Bytes) : Out (LArena × StrRef) :=
  let next := a.bucketCap * 2
  if s.length > next then
    if a.usage + s.length > a.max then .err .memoryLimit
    else
      .ok ({ a with usage := a.usage + s.length,
                    buckets := { id := a.nextId, cap := s.length, data := s } :: a.buckets, nextId := a.nextId + 1 },
           .arena { bid := a.nextId, off := 0, len := s.length })
  else if a.usage + next > a.max then
    let rem := a.max - a.usage
    if rem < s.length then .err .memoryLimit
    else if a.usage + rem > a.max then .err .memoryLimit
    else if rem = 0 then .err .memoryLimit
    else if s.length ≤ rem then
      .ok ({ a with usage := a.usage + rem,
                    buckets := { id := a.nextId, cap := rem, data := s } :: a.buckets, nextId := a.nextId + 1 },
           .arena { bid := a.nextId, off := 0, len := s.length })
    else .fault .oobWrite
  else if s.length ≤ next then
    .ok ({ a with usage := a.usage + next, bucketCap := next,
                  buckets := { id := a.nextId, cap := next, data := s } :: a.buckets, nextId := a.nextId + 1 },
         .arena { bid := a.nextId, off := 0, len := s.length })
  else .fault .oobWrite

def store (a : LArena) (s : Bytes) : Out (LArena × StrRef) :=
  if s.length = 0 then .ok (a, .empty) else
  match fitIn s a.buckets with
  | some (bs, loc) => .ok ({ a with buckets := bs }, .arena loc)
  | none => a.grow s

def branchOf (a : LArena) (s : Bytes) : String :=
  if s.length = 0 then "empty" else
  match fitIn s a.buckets with
  | some _ => "fit"
  | none =>
    if s.length > a.bucketCap * 2 then "oversize"
    else if a.usage + a.bucketCap * 2 > a.max then "remaining"
    else "double"

end LArena

/-! ## What a view holds -/

inductive AnyArena where
  | st (a : Arena)
  | lf (a : LArena)
  deriving Repr, Inhabited

namespace AnyArena
def read : AnyArena → Loc → Option Bytes
  | .st a, l => a.read l
  | .lf a, l => a.read l
def blocks : AnyArena → List Bucket
  | .st a => a.vecOrder
  | .lf a => a.buckets
def usage : AnyArena → Nat
  | .st a => a.usage
  | .lf a => a.usage
end AnyArena

end Lasso
