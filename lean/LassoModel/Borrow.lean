import LassoModel.Source
/-
  A three-statement borrow model for the probe programs of C20:

      let s = <obtain a string from container c by entry point e>;
      <invalidate c by operation o>;
      use(s);

  The program is rejected iff the loan created by `e` is tied to the borrow of `c` (its return
  lifetime class, read from the extracted signature, is `self_`) and `o` needs exclusive access to
  `c` (`&mut self`), takes it by value (`self`, `drop`), or `c` goes out of scope.  Trusted to be what
  rustc's borrow checker does on these programs; validated against rustc on the whole matrix.
-/
namespace Lasso.Borrow
open Lasso.Source

inductive Invalidator where
  | clear | cloneFrom | tryCloneFrom | intoReader | intoResolver | drop | scopeEnd
  deriving DecidableEq, Repr, Inhabited

def Invalidator.sig : Invalidator → Option SigName
  | .clear => some .clear
  | .cloneFrom => some .cloneFrom
  | .tryCloneFrom => some .tryCloneFrom
  | .intoReader => some .intoReader
  | .intoResolver => some .intoResolver
  | .drop => none
  | .scopeEnd => none

def findSig (sigs : List FnSig) (o : Owner) (n : SigName) : Option FnSig :=
  sigs.find? (fun s => s.owner == o && s.name == n)

/-- How the invalidating operation takes the container: from its extracted receiver; `drop(c)` takes
it by value; the end of its scope is its own kind. `none`: the container has no such operation. -/
def invalidatorKind (sigs : List FnSig) (o : Owner) : Invalidator → Option (Option Recv)
  | .drop => some (some .val)
  | .scopeEnd => some none
  | i => match i.sig with
    | some n => (findSig sigs o n).map (fun s => some s.recv)
    | none => none

/-- The diagnostic rustc gives for a live shared loan across each kind of operation. -/
def conflictCode : Option Recv → Option String
  | some .refMut => some "E0502"     -- cannot borrow as mutable because it is also borrowed as immutable
  | some .val => some "E0505"        -- cannot move out because it is borrowed
  | some .boxSelf => some "E0505"
  | none => some "E0597"             -- does not live long enough
  | some .ref => Option.none         -- a shared borrow does not conflict: accepted
  | some .none => Option.none

/-- Verdict on the probe `obtain e; invalidate i; use`: `some (some code)` = rejected with that code,
`some none` = accepted, `none` = not applicable (the entry point or the operation does not exist). -/
def probe (sigs : List FnSig) (o : Owner) (e : SigName) (i : Invalidator) : Option (Option String) :=
  match findSig sigs o e, invalidatorKind sigs o i with
  | some s, some k =>
    match s.ret with
    | .self_ => some (conflictCode k)
    | _ => some none          -- `'static` or a free lifetime: nothing ties the string to the container
  | _, _ => none

/-- The same probe when the string is obtained through a trait object over the container: the
entry point's signature is the trait's, the invalidating operation the container's. -/
def probeVia (sigs : List FnSig) (entryOwner container : Owner) (e : SigName) (i : Invalidator) : Option (Option String) :=
  match findSig sigs entryOwner e, invalidatorKind sigs container i with
  | some s, some k =>
    match s.ret with
    | .self_ => some (conflictCode k)
    | _ => some none
  | _, _ => none

def stringEntryPoints : List SigName := [.resolve, .tryResolve, .resolveUnchecked, .index, .iter, .strings, .intoIter]
def invalidators : List Invalidator := [.clear, .cloneFrom, .tryCloneFrom, .intoReader, .intoResolver, .drop, .scopeEnd]
def containers : List Owner := [.rodeo, .threaded, .reader, .resolver]

end Lasso.Borrow
