import LassoModel.Source
/-
  Semantics of the decision trees the extractor produces from the growth part of `store_str`
  (`Source.GTree`).  The result says what the call does to the arena's bookkeeping: nothing and an
  error, or: claim `claim` bytes of budget, create a block of `size` bytes, optionally store a new
  block capacity, and place the block.  `none` = the tree contains something the translator did not
  understand (or uses a variable before it is bound).
-/
namespace Lasso.Grow
open Lasso.Source

structure Env where
  len : Nat
  bucketCap : Nat
  usage : Nat
  max : Nat
  nextCap : Option Nat := none
  remaining : Option Nat := none
  deriving Repr, Inhabited, DecidableEq

def Env.get (e : Env) : GVar → Option Nat
  | .len => some e.len
  | .bucketCap => some e.bucketCap
  | .usage => some e.usage
  | .max => some e.max
  | .nextCap => e.nextCap
  | .remaining => e.remaining

def Env.set (e : Env) (v : GVar) (n : Nat) : Option Env :=
  match v with
  | .nextCap => some { e with nextCap := some n }
  | .remaining => some { e with remaining := some n }
  | _ => none                      -- the inputs are never re-bound

def evalE (env : Env) : GExpr → Option Nat
  | .var v => env.get v
  | .lit n => some n
  | .mul a b => do let x ← evalE env a; let y ← evalE env b; pure (x * y)
  | .add a b => do let x ← evalE env a; let y ← evalE env b; pure (x + y)
  | .satSub a b => do let x ← evalE env a; let y ← evalE env b; pure (x - y)
  | .unknown _ => none

def evalC (env : Env) : GCond → Option Bool
  | .gt a b => do let x ← evalE env a; let y ← evalE env b; pure (decide (x > y))
  | .lt a b => do let x ← evalE env a; let y ← evalE env b; pure (decide (x < y))
  | .ge a b => do let x ← evalE env a; let y ← evalE env b; pure (decide (x ≥ y))
  | .le a b => do let x ← evalE env a; let y ← evalE env b; pure (decide (x ≤ y))
  | .not c => do let b ← evalC env c; pure (!b)
  | .unknown _ => none

inductive Outcome where
  | err
  | grow (claim size : Nat) (newCap : Option Nat) (place : GPlace)
  deriving DecidableEq, Repr, Inhabited

/-- `allocate_memory(claim)?` (check then add), the block constructor, the placement. -/
def evalAlloc (env : Env) (a : GAlloc) : Option Outcome := do
  let claim ← evalE env a.claim
  let size ← evalE env a.size
  let newCap ← match a.setCap with
    | none => pure none
    | some e => do let c ← evalE env e; pure (some c)
  if a.place = .missing then none
  else if env.usage + claim > env.max then pure .err
  else if a.sizeChecked && size == 0 then pure .err
  else pure (.grow claim size newCap a.place)

def eval (env : Env) : GTree → Option Outcome
  | .bind v e k => do
      let n ← evalE env e
      let env' ← env.set v n
      eval env' k
  | .ite c t e => do
      let b ← evalC env c
      if b then eval env t else eval env e
  | .err => some .err
  | .alloc a => evalAlloc env a
  | .unknown _ => none

end Lasso.Grow
