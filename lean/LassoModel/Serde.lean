import LassoModel.Views
/-
  Serialisation at serde's *data-model* level and the iterator state machines.

  A document is a sequence of strings (`Rodeo`, `RodeoReader`, `RodeoResolver`) or a sequence of
  `(string, raw key)` map entries in textual order (`ThreadedRodeo`).  JSON text, escaping and UTF-8
  are serde_json's job and stay unmodelled (they are exercised by the correspondence run).
-/
namespace Lasso

/-- `usize::MAX`: the limit of every arena built by a deserialiser. -/
def usizeMax : Nat := 18446744073709551615

def docCapacity (doc : List Bytes) : Nat :=
  let total := sumNat (doc.map List.length)
  if total = 0 then 4096 else total

/-- Loop of `Rodeo::deserialize` / `RodeoReader::deserialize` (with the repairs for D3 and D7).
The table is created `with_capacity(len)`, so it never grows here: growth oracle `false`. -/
def deListLoop (env : Env) (N : Nat) : List Bytes → Nat → Table → List StrRef → Arena → Out (Table × List StrRef × Arena)
  | [], _, t, ss, a => .ok (t, ss, a)
  | x :: rest, idx, t, ss, a =>
    match a.store x with
    | .ok (a', ref) =>
      match tableFind env a'.read ss t x with
      | .ok (some _) => .err .serde                       -- duplicate string
      | .ok none =>
        match keyOfIndex N idx with
        | none => .err .serde                              -- more strings than the key type can index
        | some _ =>
          let ss' := ss ++ [ref]
          match tableInsert t (env.hash x) idx false (rehashFn env a'.read ss') with
          | .ok t' => deListLoop env N rest (idx + 1) t' ss' a'
          | .err e => .err e
          | .panic => .panic
          | .fault f => .fault f
      | .err e => .err e
      | .panic => .panic
      | .fault f => .fault f
    | .err _ => .panic        -- `.expect("failed to allocate enough memory")`
    | .panic => .panic
    | .fault f => .fault f

def deRodeo (env : Env) (N : Nat) (doc : List Bytes) : Out Rodeo :=
  match deListLoop env N doc 0 [] [] (Arena.new (docCapacity doc) usizeMax) with
  | .ok (t, ss, a) => .ok { table := t, strings := ss, arena := a, N := N }
  | .err e => .err e
  | .panic => .panic
  | .fault f => .fault f

def deReader (env : Env) (N : Nat) (doc : List Bytes) : Out Reader :=
  match deRodeo env N doc with
  | .ok r => .ok r.intoReader
  | .err e => .err e
  | .panic => .panic
  | .fault f => .fault f

def deResolverLoop : List Bytes → List StrRef → Arena → Out (List StrRef × Arena)
  | [], ss, a => .ok (ss, a)
  | x :: rest, ss, a =>
    match a.store x with
    | .ok (a', ref) => deResolverLoop rest (ss ++ [ref]) a'
    | .err _ => .panic
    | .panic => .panic
    | .fault f => .fault f

/-- `RodeoResolver::deserialize` (with the repair for D8). -/
def deResolver (N : Nat) (doc : List Bytes) : Out Resolver :=
  if doc.length ≠ 0 ∧ (keyOfIndex N (doc.length - 1)).isNone then .err .serde else
  match deResolverLoop doc [] (Arena.new (docCapacity doc) usizeMax) with
  | .ok (ss, a) => .ok { strings := ss, arena := .st a, N := N }
  | .err e => .err e
  | .panic => .panic
  | .fault f => .fault f

/-- `HashMap<String, K>::deserialize`: entries in textual order, a repeated string keeps the last
value; a raw key must be a non-zero value of the backing integer (`1 ..= N`). -/
def dedupLast : List (Bytes × Nat) → List (Bytes × Nat)
  | [] => []
  | e :: rest => if rest.any (fun f => f.1 == e.1) then dedupLast rest else e :: dedupLast rest

def deThreadedLoop : List (Bytes × Nat) → Threaded → Out Threaded
  | [], t => .ok t
  | (x, raw) :: rest, t =>
    let idx := indexOfKey raw
    match t.arena.store x with
    | .ok (a', ref) =>
      deThreadedLoop rest { t with arena := a', ctr := Nat.max t.ctr (idx + 1),
                                   map := t.map ++ [(ref, idx)], strs := assocInsert idx ref t.strs }
    | .err _ => .panic
    | .panic => .panic
    | .fault f => .fault f

/-- `ThreadedRodeo::deserialize` (with the repairs for D2 and D4). -/
def deThreaded (N : Nat) (doc : List (Bytes × Nat)) : Out Threaded :=
  if doc.any (fun e => e.2 = 0 ∨ e.2 > N) then .err .serde else
  let entries := dedupLast doc
  let t0 : Threaded := { map := [], strs := [], ctr := 0,
                         arena := LArena.new (docCapacity (entries.map (·.1))) usizeMax, N := N, unordered := true }
  match deThreadedLoop entries t0 with
  | .ok t => if t.strs.length ≠ t.map.length ∨ t.ctr ≠ t.strs.length then .err .serde else .ok t
  | .err e => .err e
  | .panic => .panic
  | .fault f => .fault f

/-! ## Iterators (`util.rs`): `Enumerate<slice::Iter>` / `slice::Iter`, as a state over the remaining items -/

inductive IterStep where
  | next | nextBack | nthBack (n : Nat) | len
  deriving Repr, Inhabited

/-- One step on the remaining items `l`; returns the new remaining items and what was produced
(`inl item` / `inr length`). -/
def iterStep (l : List α) : IterStep → List α × Option (Sum α Nat)
  | .next => match l with
    | [] => ([], none)
    | x :: r => (r, some (.inl x))
  | .nextBack => match l.getLast? with
    | none => ([], none)
    | some x => (l.dropLast, some (.inl x))
  | .nthBack n =>
    if n < l.length then
      let kept := l.take (l.length - n)
      match kept.getLast? with
      | none => ([], none)
      | some x => (kept.dropLast, some (.inl x))
    else ([], none)
  | .len => (l, some (.inr l.length))

end Lasso
