import LassoModel.Basic
/-
  Small-step interleaving semantics of `LockfreeArena::store_str` (arenas/lockfree.rs,
  atomic_bucket.rs) at the granularity of its schedule points: every load of a list pointer, every
  load and compare-exchange of a block's length, the copy, every load of capacity / usage / limit, the
  atomic check-and-add of `allocate_memory`, the capacity store, and the load / compare-exchange of
  the list head in `push_front`.

  A block's `len` is the atomic reservation counter; `claims` records every successful reservation
  `(offset, length, bytes once copied)` most recent first.  That reservations tile `[0, len)` is an
  invariant to be *proved* from the compare-exchange semantics, not built in.
-/
namespace Lasso.CA
open Lasso

structure Claim where
  off : Nat
  n : Nat
  data : Option Bytes       -- `none` until the reserving thread has copied its string
  deriving Repr, Inhabited, DecidableEq

structure ABucket where
  id : Nat
  cap : Nat
  len : Nat                 -- the atomic length
  claims : List Claim       -- most recent first
  deriving Repr, Inhabited, DecidableEq

inductive GKind where
  | oversize | remaining | double (next : Nat)
  deriving Repr, Inhabited, DecidableEq

inductive ARes where
  | ok (bid off : Nat)
  | empty
  | err
  deriving Repr, Inhabited, DecidableEq

inductive APC where
  | idle
  | walk (x : Bytes) (cur : Option Nat)            -- about to load the next list pointer
  | loadLen (x : Bytes) (b : Nat)                  -- about to load block b's length
  | cas (x : Bytes) (b seen tries : Nat)           -- about to compare-exchange len: seen → seen + |x|
  | copy (x : Bytes) (b off : Nat)                 -- holds [off, off+|x|) of block b, about to copy
  | growCap (x : Bytes)                            -- about to load bucket_capacity
  | growUsage (x : Bytes) (next : Nat)             -- about to load memory_usage
  | growMax (x : Bytes) (next usage : Nat)         -- about to load max_memory_usage
  | allocMax (x : Bytes) (req : Nat) (k : GKind)   -- allocate_memory(req): about to load the limit
  | allocUpd (x : Bytes) (req mx : Nat) (k : GKind) -- about to check-and-add atomically
  | storeCap (x : Bytes) (nb : ABucket) (next : Nat) -- owns the new block, about to store the capacity
  | pushLoad (x : Bytes) (nb : ABucket)            -- owns the new block, about to load the head
  | pushCas (x : Bytes) (nb : ABucket) (hd : Option Nat) -- about to compare-exchange the head
  deriving Repr, Inhabited, DecidableEq

structure AThread where
  pc : APC
  todo : List Bytes
  deriving Repr, Inhabited

structure AS where
  buckets : List ABucket       -- the published list, head first
  bucketCap : Nat
  usage : Nat
  max : Nat
  hi : Nat                     -- ghost: the highest limit that has ever been in force
  nextId : Nat
  ts : List AThread
  log : List (Nat × Bytes × ARes)
  deriving Inhabited

def headId (bs : List ABucket) : Option Nat := bs.head?.map (·.id)

/-- The block that follows block `c` in the list (`c.next`, fixed when `c` was published). -/
def succOf : List ABucket → Nat → Option Nat
  | [], _ => none
  | b :: rest, c => if b.id = c then headId rest else succOf rest c

/-- The block the walk visits after `cur` (`none`: the walk has not started). -/
def nextOf (bs : List ABucket) : Option Nat → Option Nat
  | none => headId bs
  | some c => succOf bs c

def findB (bs : List ABucket) (id : Nat) : Option ABucket := bs.find? (fun b => b.id == id)

def updB (bs : List ABucket) (id : Nat) (f : ABucket → ABucket) : List ABucket :=
  bs.map fun b => if b.id = id then f b else b

def fillClaim (cs : List Claim) (off : Nat) (x : Bytes) : List Claim :=
  cs.map fun c => if c.off = off then { c with data := some x } else c

def done (s : AS) (t : Nat) (th : AThread) (x : Bytes) (r : ARes) : AS :=
  { s with ts := s.ts.set t { pc := .idle, todo := th.todo }, log := (t, x, r) :: s.log }

def setPc (s : AS) (t : Nat) (th : AThread) (pc : APC) : AS := { s with ts := s.ts.set t { th with pc := pc } }

/-- The new block `store_str` fills before publishing it (`push_slice` through the unique reference). -/
def freshB (id cap : Nat) (x : Bytes) : ABucket := { id := id, cap := cap, len := x.length, claims := [{ off := 0, n := x.length, data := some x }] }

/-- One step of thread `t`. `spurious`: a `compare_exchange_weak` fails although the value matches. -/
def step (s : AS) (t : Nat) (spurious : Bool) : Option AS :=
  match s.ts[t]? with
  | none => none
  | some th =>
    match th.pc with
    | .idle =>
      match th.todo with
      | [] => none
      | x :: rest =>
        let th' : AThread := { pc := .idle, todo := rest }
        if x.length = 0 then some (done s t th' x .empty)
        else some { s with ts := s.ts.set t { pc := .walk x none, todo := rest } }
    | .walk x cur =>
      match nextOf s.buckets cur with
      | some b => some (setPc s t th (.loadLen x b))
      | none => some (setPc s t th (.growCap x))
    | .loadLen x b =>
      match findB s.buckets b with
      | none => none
      | some bk =>
        if bk.len + x.length ≤ bk.cap then some (setPc s t th (.cas x b bk.len 0))
        else some (setPc s t th (.walk x (some b)))
    | .cas x b seen tries =>
      match findB s.buckets b with
      | none => none
      | some bk =>
        if bk.len = seen ∧ spurious = false then
          some { setPc s t th (.copy x b seen) with
                 buckets := updB s.buckets b fun k => { k with len := seen + x.length, claims := { off := seen, n := x.length, data := none } :: k.claims } }
        else if tries + 1 < 100 ∧ bk.len + x.length ≤ bk.cap then some (setPc s t th (.cas x b bk.len (tries + 1)))
        else some (setPc s t th (.walk x (some b)))
    | .copy x b off =>
      some { done s t th x (.ok b off) with buckets := updB s.buckets b fun k => { k with claims := fillClaim k.claims off x } }
    | .growCap x =>
      let next := s.bucketCap * 2
      if x.length > next then some (setPc s t th (.allocMax x x.length .oversize))
      else some (setPc s t th (.growUsage x next))
    | .growUsage x next => some (setPc s t th (.growMax x next s.usage))
    | .growMax x next u =>
      if u + next > s.max then
        let rem := s.max - u
        if rem < x.length then some (done s t th x .err)
        else some (setPc s t th (.allocMax x rem .remaining))
      else some (setPc s t th (.allocMax x next (.double next)))
    | .allocMax x req k => some (setPc s t th (.allocUpd x req s.max k))
    | .allocUpd x req mx k =>
      if s.usage + req > mx then some (done s t th x .err)
      else
        let nb := freshB s.nextId req x
        let s1 := { s with usage := s.usage + req, nextId := s.nextId + 1 }
        match k with
        | .double next => some (setPc s1 t th (.storeCap x nb next))
        | _ => if req = 0 then some (done s1 t th x .err) else some (setPc s1 t th (.pushLoad x nb))
    | .storeCap x nb next => some { setPc s t th (.pushLoad x nb) with bucketCap := next }
    | .pushLoad x nb => some (setPc s t th (.pushCas x nb (headId s.buckets)))
    | .pushCas x nb hd =>
      if headId s.buckets = hd ∧ spurious = false then
        some { done s t th x (.ok nb.id 0) with buckets := nb :: s.buckets }
      else some (setPc s t th (.pushCas x nb (headId s.buckets)))

def run (s : AS) : List (Nat × Bool) → AS
  | [] => s
  | (t, sp) :: rest =>
    match step s t sp with
    | some s' => run s' rest
    | none => run s rest

def init (cap max : Nat) (programs : List (List Bytes)) : AS :=
  { buckets := [{ id := 0, cap := cap, len := 0, claims := [] }], bucketCap := cap, usage := cap, max := max, hi := max, nextId := 1,
    ts := programs.map fun p => { pc := .idle, todo := p }, log := [] }

/-- `set_memory_limits` by some thread outside the interning paths: one relaxed store. -/
def setMax (s : AS) (m : Nat) : AS := { s with max := m, hi := Nat.max s.hi m }

/-- Schedules in which the limit changes while threads are interning. -/
inductive Ev where
  | th (t : Nat) (spurious : Bool)
  | setMax (m : Nat)
  deriving Repr, Inhabited, DecidableEq

def runE (s : AS) : List Ev → AS
  | [] => s
  | .th t sp :: rest =>
    match step s t sp with
    | some s' => runE s' rest
    | none => runE s rest
  | .setMax m :: rest => runE (setMax s m) rest

def quiescent (s : AS) : Bool := s.ts.all fun th => th.pc == .idle && th.todo.isEmpty

def enabled (s : AS) : List Nat := (List.range s.ts.length).filter fun t => (step s t false).isSome

end Lasso.CA
