import LassoModel.Basic
/-
  The named hash functions the correspondence harness supplies to the real code as `BuildHasher`s.
  `impl Hash for str` feeds the bytes followed by one `0xff` byte; every function below is defined
  on that stream.  Theorems never mention these: they quantify over *all* `Bytes → UInt64`.
-/
namespace Lasso

def fnvStep (h : UInt64) (b : UInt8) : UInt64 := (h ^^^ b.toUInt64) * 0x00000100000001B3

def fnv1a (x : Bytes) : UInt64 := (x ++ [0xff]).foldl fnvStep 0xcbf29ce484222325

def hashByName (name : String) : Option (Bytes → UInt64) :=
  match name with
  | "fnv1a" => some fnv1a
  | "const0" => some (fun _ => 0)
  | "len" => some (fun x => (x.length + 1).toUInt64)
  | "firstByte" => some (fun x => match x with
      | [] => 0xff
      | b :: _ => b.toUInt64)
  | "topBitsConst" => some (fun x => fnv1a x &&& 0x7f)
  | _ => none

end Lasso
